//! Executes an operation script against real resamplers and emits one event per call.
//! Events carry cheap scalars only and are TLC friendly (integers, strings, booleans, arrays).

use crate::alloc::heap_events;
use crate::any::AnyRes;
use crate::probe::{LinearProbe, ProbeStats, RecordingProbe, Smp};
use rubato::sinc_interpolator::sinc_interpolator_avx::AvxInterpolator;
use rubato::sinc_interpolator::sinc_interpolator_sse::SseInterpolator;
use rubato::sinc_interpolator::{ScalarInterpolator, SincInterpolator};
use rubato::{
    FastFixedIn, FastFixedOut, FftFixedIn, FftFixedInOut, FftFixedOut, PolynomialDegree,
    ResampleError, ResamplerConstructionError, SincFixedIn, SincFixedOut,
    SincInterpolationParameters, SincInterpolationType, WindowFunction,
};
use serde_json::{json, Map, Value};
use std::io::Write;
use std::panic::{catch_unwind, AssertUnwindSafe};
use std::sync::{Arc, Mutex};

pub const FRAC: f64 = 1048576.0; // 2^20
pub const SENT: f64 = -1.0e30;

pub static PANIC_MSG: Mutex<String> = Mutex::new(String::new());

pub fn install_panic_hook() {
    std::panic::set_hook(Box::new(|info| {
        let msg = if let Some(s) = info.payload().downcast_ref::<&str>() {
            s.to_string()
        } else if let Some(s) = info.payload().downcast_ref::<String>() {
            s.clone()
        } else {
            "panic".to_string()
        };
        let loc = info
            .location()
            .map(|l| format!(" @{}:{}", l.file(), l.line()))
            .unwrap_or_default();
        eprintln!("panic: {}{}", msg, loc);
        if let Ok(mut g) = PANIC_MSG.lock() {
            *g = format!("{}{}", msg, loc);
        }
    }));
}

// ---------------------------------------------------------------------------------------------
// small helpers

fn gi(v: &Value, k: &str, d: i64) -> i64 {
    v.get(k).and_then(|x| x.as_i64()).unwrap_or(d)
}
fn gs<'a>(v: &'a Value, k: &str, d: &'a str) -> &'a str {
    v.get(k).and_then(|x| x.as_str()).unwrap_or(d)
}
fn gb(v: &Value, k: &str, d: bool) -> bool {
    v.get(k).and_then(|x| x.as_bool()).unwrap_or(d)
}

/// fixed point [floor(v), floor(frac*2^20)]; non-finite or huge values map to [-(2^30), 0].
pub fn fx(v: f64) -> Value {
    if !v.is_finite() || v.abs() > 1.0e9 {
        return json!([-(1i64 << 30), 0]);
    }
    let i = v.floor();
    let mut f = ((v - i) * FRAC).floor();
    if f >= FRAC {
        f = FRAC - 1.0;
    }
    json!([i as i64, f as i64])
}

/// the four 16-bit words of an f64, most significant first
pub fn words(x: f64) -> Value {
    let b = x.to_bits();
    json!([
        ((b >> 48) & 0xffff) as i64,
        ((b >> 32) & 0xffff) as i64,
        ((b >> 16) & 0xffff) as i64,
        (b & 0xffff) as i64
    ])
}

fn next_up(x: f64) -> f64 {
    if x.is_nan() || x == f64::INFINITY {
        return x;
    }
    if x == 0.0 {
        return f64::from_bits(1);
    }
    let b = x.to_bits();
    if x > 0.0 {
        f64::from_bits(b + 1)
    } else {
        f64::from_bits(b - 1)
    }
}
fn next_down(x: f64) -> f64 {
    -next_up(-x)
}

/// A ratio given in a script: {"p":..,"q":..} | {"bits":"hex"} . Returns (value, p, q) with p=q=0
/// when not given as a small fraction.
fn parse_ratio(v: &Value) -> (f64, i64, i64) {
    if let Some(b) = v.get("bits").and_then(|x| x.as_str()) {
        let bits = u64::from_str_radix(b, 16).unwrap_or(0);
        return (f64::from_bits(bits), 0, 0);
    }
    let p = gi(v, "p", 1);
    let q = gi(v, "q", 1);
    (p as f64 / q as f64, p, q)
}

fn ratio_json(x: f64, p: i64, q: i64) -> Value {
    let t = if x > 0.0 && x.is_finite() { 1.0 / x } else { f64::NAN };
    json!({"p": p, "q": q, "t": fx(t), "r": fx(x), "w": words(x)})
}

fn splitmix(mut z: u64) -> u64 {
    z = z.wrapping_add(0x9e3779b97f4a7c15);
    z = (z ^ (z >> 30)).wrapping_mul(0xbf58476d1ce4e5b9);
    z = (z ^ (z >> 27)).wrapping_mul(0x94d049bb133111eb);
    z ^ (z >> 31)
}

fn fnv(h: &mut u64, x: u64) {
    for k in 0..8 {
        *h ^= (x >> (8 * k)) & 0xff;
        *h = h.wrapping_mul(0x100000001b3);
    }
}

// ---------------------------------------------------------------------------------------------

#[derive(Clone, Debug, PartialEq)]
pub enum Signal {
    Index,
    Noise,
    Zero,
    Impulse(Vec<i64>),
    Poly(Vec<f64>),
    Big, // noise with huge dynamic range
    Fade, // noise fading out through the subnormal range down to exact zero
    Burst(i64), // noise in some segments of the given length, EXACT zeros in the others (per channel); some channels silent throughout
}

pub struct Inst<T: Smp> {
    pub res: AnyRes<T>,
    pub kind: String,
    pub ch: usize,
    pub chbase: usize,
    pub signal: Signal,
    pub seed: u64,
    pub pos: i64, // frames of the stream supplied since the last reset (epoch)
    pub stats: Option<Arc<ProbeStats>>,
    pub taus_cap: usize,
    pub stream_hash: Vec<u64>, // per channel running hash of everything written so far
    pub stream_len: Vec<u64>,
    pub ckpt: usize,
    pub dead: bool,
    pub log_vals: bool,      // log output values (2^-20 fixed point) of the first active channel
    pub last_out: Vec<f64>,  // the frames written by the last call (first active channel)
    pub sig_peak: f64,       // largest |sample| supplied or produced so far
    pub blk: usize,          // block size for stream block digests (0 = off)
    pub blk_acc: Vec<u64>,   // bits of the frames of the current, incomplete block (first active channel)
}

pub enum AnyInst {
    F32(Inst<f32>),
    F64(Inst<f64>),
}

fn sample_at(sig: &Signal, seed: u64, ch: usize, n: i64) -> f64 {
    match sig {
        Signal::Index => (n + 1) as f64, // frame n carries n+1; zeros before the stream extend it to frame -1
        Signal::Zero => 0.0,
        Signal::Noise => {
            let h = splitmix(seed ^ splitmix((ch as u64) << 40 ^ (n as u64)));
            // dyadic values with 20 significant bits: exact in f32 and f64
            ((h >> 44) as f64) / 524288.0 - 1.0
        }
        Signal::Big => {
            let h = splitmix(seed ^ splitmix((ch as u64) << 40 ^ (n as u64)));
            let e = ((h >> 8) % 41) as i32 - 20;
            (((h >> 44) as f64) / 524288.0 - 1.0) * (2.0f64).powi(e)
        }
        Signal::Fade => {
            let h = splitmix(seed ^ splitmix((ch as u64) << 40 ^ (n as u64)));
            let v = ((h >> 44) as f64) / 524288.0 - 1.0;
            // one binade every 2 frames: f32 subnormals from frame ~250, f64 subnormals from ~2040
            let e = -(n / 2) as i32;
            if e < -1100 {
                0.0
            } else {
                v * (2.0f64).powi(e.max(-1022)) * (2.0f64).powi((e + 1022).min(0))
            }
        }
        Signal::Burst(seg) => {
            let seg = (*seg).max(1);
            let silent_channel = splitmix(seed ^ 0x5151 ^ ((ch as u64) << 20)) % 4 == 0;
            let on = splitmix(seed ^ 0xb075 ^ ((ch as u64) << 32) ^ (n.div_euclid(seg) as u64)) % 2 == 0;
            if silent_channel || !on || n < 0 {
                0.0
            } else {
                let h = splitmix(seed ^ splitmix((ch as u64) << 40 ^ (n as u64)));
                ((h >> 44) as f64) / 524288.0 - 1.0
            }
        }
        Signal::Impulse(at) => {
            if at.contains(&n) {
                1.0
            } else {
                0.0
            }
        }
        Signal::Poly(c) => {
            let x = n as f64;
            let mut v = 0.0;
            for k in (0..c.len()).rev() {
                v = v * x + c[k];
            }
            v
        }
    }
}

fn window_of(s: &str) -> WindowFunction {
    match s {
        "Blackman" => WindowFunction::Blackman,
        "Blackman2" => WindowFunction::Blackman2,
        "BlackmanHarris" => WindowFunction::BlackmanHarris,
        "Hann" => WindowFunction::Hann,
        "Hann2" => WindowFunction::Hann2,
        _ => WindowFunction::BlackmanHarris2,
    }
}
fn interp_of(s: &str) -> SincInterpolationType {
    match s {
        "Cubic" => SincInterpolationType::Cubic,
        "Quadratic" => SincInterpolationType::Quadratic,
        "Linear" => SincInterpolationType::Linear,
        _ => SincInterpolationType::Nearest,
    }
}
fn degree_of(s: &str) -> PolynomialDegree {
    match s {
        "Septic" => PolynomialDegree::Septic,
        "Quintic" => PolynomialDegree::Quintic,
        "Cubic" => PolynomialDegree::Cubic,
        "Linear" => PolynomialDegree::Linear,
        _ => PolynomialDegree::Nearest,
    }
}

fn cerr_json(e: &ResamplerConstructionError) -> Value {
    match e {
        ResamplerConstructionError::InvalidSampleRate { input, output } => {
            json!({"variant":"InvalidSampleRate","f":[*input as i64, *output as i64]})
        }
        ResamplerConstructionError::InvalidRelativeRatio(x) => {
            json!({"variant":"InvalidRelativeRatio","f":[fx(*x)]})
        }
        ResamplerConstructionError::InvalidRatio(x) => {
            json!({"variant":"InvalidRatio","f":[fx(*x)]})
        }
    }
}

pub fn err_json(e: &ResampleError) -> (String, Vec<i64>) {
    let c = |u: &usize| -> i64 {
        if *u > (1usize << 30) {
            -1
        } else {
            *u as i64
        }
    };
    match e {
        ResampleError::RatioOutOfBounds { .. } => ("RatioOutOfBounds".into(), vec![]),
        ResampleError::SyncNotAdjustable => ("SyncNotAdjustable".into(), vec![]),
        ResampleError::WrongNumberOfInputChannels { expected, actual } => {
            ("WrongNumberOfInputChannels".into(), vec![c(expected), c(actual)])
        }
        ResampleError::WrongNumberOfOutputChannels { expected, actual } => {
            ("WrongNumberOfOutputChannels".into(), vec![c(expected), c(actual)])
        }
        ResampleError::WrongNumberOfMaskChannels { expected, actual } => {
            ("WrongNumberOfMaskChannels".into(), vec![c(expected), c(actual)])
        }
        ResampleError::InsufficientInputBufferSize {
            channel,
            expected,
            actual,
        } => (
            "InsufficientInputBufferSize".into(),
            vec![c(channel), c(expected), c(actual)],
        ),
        ResampleError::InsufficientOutputBufferSize {
            channel,
            expected,
            actual,
        } => (
            "InsufficientOutputBufferSize".into(),
            vec![c(channel), c(expected), c(actual)],
        ),
        ResampleError::InvalidChunkSize { max, requested } => {
            ("InvalidChunkSize".into(), vec![c(max), c(requested)])
        }
        ResampleError::ChunkSizeNotAdjustable => ("ChunkSizeNotAdjustable".into(), vec![]),
    }
}

fn make_kernel<T: Smp>(
    which: &str,
    l: usize,
    f: usize,
    fcut: f32,
    win: WindowFunction,
) -> Option<Box<dyn SincInterpolator<T>>> {
    match which {
        "scalar" => Some(Box::new(ScalarInterpolator::<T>::new(l, f, fcut, win))),
        "avx" => AvxInterpolator::<T>::new(l, f, fcut, win)
            .ok()
            .map(|k| Box::new(k) as Box<dyn SincInterpolator<T>>),
        "sse" => SseInterpolator::<T>::new(l, f, fcut, win)
            .ok()
            .map(|k| Box::new(k) as Box<dyn SincInterpolator<T>>),
        _ => None,
    }
}

/// Build an instance from a "new" op. Returns the instance (or None) and the event.
pub fn build<T: Smp>(op: &Value) -> (Option<Inst<T>>, Value) {
    let kind = gs(op, "kind", "FastFixedIn").to_string();
    let ch = gi(op, "ch", 1) as usize;
    let chunk = gi(op, "chunk", 8) as usize;
    let (r, rp, rq) = parse_ratio(op.get("r").unwrap_or(&Value::Null));
    let (mr, mp, mq) = parse_ratio(op.get("maxrel").unwrap_or(&Value::Null));
    let lreq = gi(op, "L", 8) as usize;
    // "Lraw": the caller-supplied probe interpolator reports exactly the requested length (the
    // SincInterpolator trait puts no restriction on len(): odd lengths, lengths that are not multiples of 8)
    let l = if gb(op, "Lraw", false) && gs(op, "probe", "dispatch") == "linear" {
        lreq.max(2)
    } else {
        8 * ((lreq + 7) / 8)
    };
    let f = gi(op, "F", 2) as usize;
    let fcut = gi(op, "fcut_milli", 950) as f32 / 1000.0;
    let win = window_of(gs(op, "window", "BlackmanHarris2"));
    let probe = gs(op, "probe", "dispatch").to_string();
    let fs_in = gi(op, "fs_in", 1) as usize;
    let fs_out = gi(op, "fs_out", 1) as usize;
    let sub = gi(op, "sub", 1) as usize;
    let signal = match gs(op, "signal", "index") {
        "noise" => Signal::Noise,
        "big" => Signal::Big,
        "fade" => Signal::Fade,
        "zero" => Signal::Zero,
        "burst" => Signal::Burst(gi(op, "seg", 256)),
        "impulse" => Signal::Impulse(
            op.get("imp")
                .and_then(|a| a.as_array())
                .map(|a| a.iter().filter_map(|x| x.as_i64()).collect())
                .unwrap_or_default(),
        ),
        "poly" => Signal::Poly(
            op.get("coef")
                .and_then(|a| a.as_array())
                .map(|a| a.iter().filter_map(|x| x.as_f64()).collect())
                .unwrap_or_default(),
        ),
        _ => Signal::Index,
    };
    let mut stats = None;
    let mut probe_used = probe.clone();
    let built: Result<Result<AnyRes<T>, ResamplerConstructionError>, _> =
        catch_unwind(AssertUnwindSafe(|| -> Result<AnyRes<T>, ResamplerConstructionError> {
            Ok(match kind.as_str() {
                "FastFixedIn" => AnyRes::FastIn(FastFixedIn::<T>::new(
                    r,
                    mr,
                    degree_of(gs(op, "degree", "Septic")),
                    chunk,
                    ch,
                )?),
                "FastFixedOut" => AnyRes::FastOut(FastFixedOut::<T>::new(
                    r,
                    mr,
                    degree_of(gs(op, "degree", "Septic")),
                    chunk,
                    ch,
                )?),
                "SincFixedIn" | "SincFixedOut" => {
                    let it = interp_of(gs(op, "interp", "Cubic"));
                    let fc = if r >= 1.0 { fcut } else { fcut * r as f32 };
                    let custom: Option<Box<dyn SincInterpolator<T>>> = match probe.as_str() {
                        "linear" => {
                            let st = ProbeStats::new();
                            stats = Some(st.clone());
                            Some(Box::new(LinearProbe {
                                len: l,
                                nbr: f,
                                stats: st,
                            }))
                        }
                        "scalar" | "avx" | "sse" => {
                            let k = match make_kernel::<T>(&probe, l, f, fc, win) {
                                Some(k) => k,
                                None => {
                                    probe_used = "scalar(fallback)".into();
                                    make_kernel::<T>("scalar", l, f, fc, win).unwrap()
                                }
                            };
                            let st = ProbeStats::new();
                            stats = Some(st.clone());
                            Some(Box::new(RecordingProbe {
                                inner: k,
                                stats: st,
                            }))
                        }
                        "rec" => {
                            let k = rubato_make_interpolator::<T>(lreq, r, fcut, f, win);
                            let st = ProbeStats::new();
                            stats = Some(st.clone());
                            Some(Box::new(RecordingProbe {
                                inner: k,
                                stats: st,
                            }))
                        }
                        _ => None,
                    };
                    match (kind.as_str(), custom) {
                        ("SincFixedIn", Some(k)) => AnyRes::SincIn(
                            SincFixedIn::<T>::new_with_interpolator(r, mr, it, k, chunk, ch)?,
                        ),
                        ("SincFixedOut", Some(k)) => AnyRes::SincOut(
                            SincFixedOut::<T>::new_with_interpolator(r, mr, it, k, chunk, ch)?,
                        ),
                        (kk, None) => {
                            let params = SincInterpolationParameters {
                                sinc_len: lreq,
                                f_cutoff: fcut,
                                oversampling_factor: f,
                                interpolation: it,
                                window: win,
                            };
                            if kk == "SincFixedIn" {
                                AnyRes::SincIn(SincFixedIn::<T>::new(r, mr, params, chunk, ch)?)
                            } else {
                                AnyRes::SincOut(SincFixedOut::<T>::new(r, mr, params, chunk, ch)?)
                            }
                        }
                        _ => unreachable!(),
                    }
                }
                "FftFixedIn" => {
                    AnyRes::FftIn(FftFixedIn::<T>::new(fs_in, fs_out, chunk, sub, ch)?)
                }
                "FftFixedOut" => {
                    AnyRes::FftOut(FftFixedOut::<T>::new(fs_in, fs_out, chunk, sub, ch)?)
                }
                _ => AnyRes::FftInOut(FftFixedInOut::<T>::new(fs_in, fs_out, chunk, ch)?),
            })
        }));
    let mut ev = json!({
        "ev":"new","id":gi(op,"id",0),"kind":kind,"T":T::BITS as i64,"ch":ch as i64,
        "chunk":chunk as i64,"L":l as i64,"F":f as i64,
        "interp":gs(op,"interp","Cubic"),"degree":gs(op,"degree","Septic"),
        "probe":probe_used,"fs_in":fs_in as i64,"fs_out":fs_out as i64,"sub":sub as i64,
        "orig":ratio_json(r,rp,rq),"maxrel":ratio_json(mr,mp,mq),
        "lo":words(r/mr),"hi":words(r*mr),"rlo":words(1.0/mr),"rhi":words(mr),
        "signal":gs(op,"signal","index"),"twin":gs(op,"twin",""),"of":gi(op,"of",-1),
        "chbase":gi(op,"chbase",0),
        "imp": op.get("imp").cloned().unwrap_or(json!([])),
    });
    let m = ev.as_object_mut().unwrap();
    match built {
        Ok(Ok(res)) => {
            m.insert("res".into(), json!("ok"));
            m.insert("variant".into(), json!(""));
            m.insert("ef".into(), json!([]));
            if let Some(st) = &stats {
                st.check_contig
                    .store(signal == Signal::Index, std::sync::atomic::Ordering::Relaxed);
            }
            let inst = Inst {
                res,
                kind,
                ch,
                chbase: gi(op, "chbase", 0) as usize,
                signal,
                seed: gi(op, "seed", 1) as u64,
                pos: 0,
                stats,
                taus_cap: gi(op, "taus_cap", 4096) as usize,
                stream_hash: vec![0xcbf29ce484222325; ch],
                stream_len: vec![0; ch],
                ckpt: gi(op, "ckpt", 0) as usize,
                dead: false,
                blk: gi(op, "blk", 0) as usize,
                blk_acc: Vec::new(),
                log_vals: gb(op, "vals", false),
                last_out: Vec::new(),
                sig_peak: 0.0,
            };
            m.insert("post".into(), getters(&inst.res));
            m.insert("priv".into(), privs(&inst.res));
            (Some(inst), ev)
        }
        Ok(Err(e)) => {
            let ce = cerr_json(&e);
            m.insert("res".into(), json!("err"));
            m.insert("variant".into(), ce["variant"].clone());
            m.insert("ef".into(), ce["f"].clone());
            (None, ev)
        }
        Err(_) => {
            m.insert("res".into(), json!("panic"));
            m.insert("variant".into(), json!(""));
            m.insert("ef".into(), json!([]));
            m.insert(
                "msg".into(),
                json!(PANIC_MSG.lock().map(|g| g.clone()).unwrap_or_default()),
            );
            (None, ev)
        }
    }
}

fn rubato_make_interpolator<T: Smp>(
    l: usize,
    r: f64,
    fcut: f32,
    f: usize,
    win: WindowFunction,
) -> Box<dyn SincInterpolator<T>> {
    // same dispatch order as asynchro_sinc::make_interpolator (which is not exported)
    let l8 = 8 * (((l as f32) / 8.0).ceil() as usize);
    let fc = if r >= 1.0 { fcut } else { fcut * r as f32 };
    if let Ok(k) = AvxInterpolator::<T>::new(l8, f, fc, win) {
        return Box::new(k);
    }
    if let Ok(k) = SseInterpolator::<T>::new(l8, f, fc, win) {
        return Box::new(k);
    }
    Box::new(ScalarInterpolator::<T>::new(l8, f, fc, win))
}

pub fn getters<T: Smp>(r: &AnyRes<T>) -> Value {
    let c = |u: usize| -> i64 {
        if u > (1usize << 30) {
            -1
        } else {
            u as i64
        }
    };
    json!({"in_next":c(r.in_next()),"in_max":c(r.in_max()),"out_next":c(r.out_next()),
           "out_max":c(r.out_max()),"delay":c(r.delay()),"ch":c(r.channels())})
}

pub fn privs<T: Smp>(r: &AnyRes<T>) -> Value {
    let s = r.vstate();
    let c = |u: usize| -> i64 {
        if u > (1usize << 30) {
            -1
        } else {
            u as i64
        }
    };
    json!({"li":fx(s.last_index),"cur":fx(1.0/s.resample_ratio),"tgt":fx(1.0/s.target_ratio),
           "chunk":c(s.chunk_size),"needed":c(s.needed_input_size),"fill":c(s.current_buffer_fill),
           "saved":c(s.saved_frames),"fneed":c(s.frames_needed),"buflen":c(s.buffer_len),
           "mask":s.mask})
}

fn digest<T: Smp>(v: &[T]) -> String {
    let mut h = 0xcbf29ce484222325u64;
    for x in v {
        fnv(&mut h, x.bits64());
    }
    format!("{:016x}", h)
}

pub type Out = Arc<Mutex<Box<dyn Write + Send>>>;

pub struct Ctx {
    pub out: Out,
    pub line: i64,
    pub thread: i64,
}

impl Ctx {
    fn put(&self, v: &Value) {
        if let Ok(mut g) = self.out.lock() {
            let _ = writeln!(g, "{}", v);
            let _ = g.flush();
        }
    }
    pub fn emit(&mut self, mut ev: Value) {
        let m = ev.as_object_mut().unwrap();
        m.insert("line".into(), json!(self.line));
        m.insert("thread".into(), json!(self.thread));
        self.put(&ev);
    }
    pub fn pending(&mut self, ev: &Value) {
        let mut p = ev.clone();
        let m = p.as_object_mut().unwrap();
        m.insert("line".into(), json!(self.line));
        m.insert("thread".into(), json!(self.thread));
        m.insert("pending".into(), json!(true));
        self.put(&p);
    }
}

/// default fields so that every event of a kind has the same shape
fn call_defaults(m: &mut Map<String, Value>) {
    for (k, v) in [
        ("res", json!("pending")),
        ("variant", json!("")),
        ("ef", json!([])),
        ("nin", json!(0)),
        ("nout", json!(0)),
        ("hi", json!([])),
        ("dirty_beyond", json!(false)),
        ("dirty_masked", json!(false)),
        ("heap", json!(0)),
        ("taus", json!([])),
        ("dig", json!([])),
        ("outlen", json!([])),
        ("rd", json!([0, 0, 0, 0, 0, 0, 0])),
        ("msg", json!("")),
        ("ckpts", json!([])),
        ("peak", json!([])),
        ("vals", json!([])),
        ("blocks", json!([])),
    ] {
        m.entry(k.to_string()).or_insert(v);
    }
}

impl<T: Smp> Inst<T> {
    fn fill_input(&self, chan: usize, len: usize, zero_from: i64, chbase: usize) -> Vec<T> {
        let mut v = Vec::with_capacity(len);
        for k in 0..len {
            if zero_from >= 0 && (k as i64) >= zero_from {
                v.push(T::from64(0.0));
            } else {
                v.push(T::from64(sample_at(
                    &self.signal,
                    self.seed,
                    chan + chbase,
                    self.pos + k as i64,
                )));
            }
        }
        v
    }

    /// All processing style operations: process / partial / bad shapes, via every entry point.
    pub fn op_process(&mut self, op: &Value, cx: &mut Ctx) {
        let id = gi(op, "id", 0);
        let opname = gs(op, "op", "process").to_string();
        let via = gs(op, "via", "into").to_string();
        let nch = self.ch;
        let pre = getters(&self.res);
        let in_next = self.res.in_next();
        let out_next = self.res.out_next();
        // ---- mask
        let mask_v: Option<Vec<bool>> = op.get("mask").and_then(|m| m.as_array()).map(|a| {
            a.iter().map(|b| b.as_bool().unwrap_or(true)).collect()
        });
        let active = |c: usize| -> bool {
            match &mask_v {
                Some(m) => m.get(c).copied().unwrap_or(true),
                None => true,
            }
        };
        let empty_masked = gb(op, "empty_masked", false);
        let masked_len = gi(op, "masked_len", -1);
        // ---- shapes
        let in_ch = (nch as i64 + gi(op, "in_ch", 0)).max(0) as usize;
        let out_ch = (nch as i64 + gi(op, "out_ch", 0)).max(0) as usize;
        let in_extra = gi(op, "in_extra", 0).max(0) as usize;
        let out_extra = gi(op, "out_extra", 0).max(0) as usize;
        let short_in = op.get("short_in").and_then(|a| a.as_array()).cloned();
        let short_out = op.get("short_out").and_then(|a| a.as_array()).cloned();
        // "kf"/"zf": [num, den] -> the count is a fraction of input_frames_next (at least 1)
        let frac_of = |key: &str| -> Option<i64> {
            op.get(key).and_then(|a| a.as_array()).and_then(|a| {
                let n = a.first()?.as_i64()?;
                let d = a.get(1)?.as_i64()?.max(1);
                Some(((in_next as i64 * n) / d).max(1).min(in_next as i64))
            })
        };
        let k_partial = frac_of("kf").unwrap_or(gi(op, "k", -1)); // partial: frames supplied, -1 = None
        let zero_from = frac_of("zf").unwrap_or(gi(op, "zero_from", -1)); // core twin of partial: zero padding from here
        let out_mode = gs(op, "out", "next");
        // ---- input buffers
        let is_partial = opname == "partial";
        // ragged partial chunks: "kpc" = frames supplied per channel (partial), "zpc" = zero padding
        // from that frame on per channel (the core twin)
        // numbers are frames; strings are relative to input_frames_next: "0", "1", "n-1", "n", "n+2"
        let per_ch = |key: &str, c: usize| -> Option<i64> {
            let x = op.get(key).and_then(|a| a.as_array()).and_then(|a| a.get(c))?;
            if let Some(v) = x.as_i64() {
                return Some(v.max(0).min(in_next as i64));
            }
            let n = in_next as i64;
            match x.as_str()? {
                "0" => Some(0),
                "1" => Some(1.min(n)),
                "n-1" => Some((n - 1).max(0)),
                "n" => Some(n),
                "n+2" => Some(n + 2),
                _ => None,
            }
        };
        let mut win: Vec<Vec<T>> = Vec::with_capacity(in_ch);
        for c in 0..in_ch {
            let mut len = if is_partial {
                if let Some(k) = per_ch("kpc", c) {
                    k as usize
                } else if k_partial < 0 {
                    0
                } else {
                    k_partial as usize
                }
            } else {
                // "in_extra_pc": [e0, e1, ...] - every channel longer than required by its own amount
                in_next
                    + op
                        .get("in_extra_pc")
                        .and_then(|a| a.as_array())
                        .and_then(|a| a.get(c))
                        .and_then(|x| x.as_i64())
                        .map(|x| x.max(0) as usize)
                        .unwrap_or(in_extra)
            };
            if let Some(s) = &short_in {
                if s.len() == 2 && s[0].as_i64() == Some(c as i64) {
                    let by = s[1].as_i64().unwrap_or(1);
                    len = if by < 0 { 0 } else { in_next.saturating_sub(by as usize) };
                }
            }
            if let Some(by) = op.get("in_short").and_then(|a| a.as_array()).and_then(|a| a.get(c)).and_then(|x| x.as_i64()) {
                len = if by < 0 { 0 } else { in_next.saturating_sub(by as usize) };
            }
            if c < nch && !active(c) && empty_masked {
                len = 0;
            }
            // "masked_len": k - inactive channels are passed with k frames (non-empty, usually too short: a
            // buffer the caller did not bother to resize for a channel that is skipped anyway)
            if c < nch && !active(c) && masked_len >= 0 {
                len = len.min(masked_len as usize);
            }
            let zf = per_ch("zpc", c).map(|v| v.min(in_next as i64)).unwrap_or(zero_from);
            // "chbase" on a call: this call's data comes from that channel of the signal (twins of aliased channels)
            let chbase = gi(op, "chbase", self.chbase as i64).max(0) as usize;
            win.push(self.fill_input(c, len, zf, chbase));
        }
        for v in &win {
            for x in v {
                let a = x.to64().abs();
                if a > self.sig_peak && a.is_finite() {
                    self.sig_peak = a;
                }
            }
        }
        // ---- output buffers
        let sent = T::from64(SENT);
        // "out_fill": "garbage" - the caller's output buffers still hold frames of earlier use (finite, audio-like
        // values, different in every slot) instead of the sentinel: the library must overwrite exactly the reported
        // frames and never read from, or accumulate into, the output
        let garbage = gs(op, "out_fill", "sentinel") == "garbage";
        let fillv = move |c: usize, k: usize| -> T {
            if garbage {
                // not round numbers: an output frame must not coincide with what was there before
                T::from64(0.314_159_265_358_979_3 + (((k * 31 + c * 7 + 3) % 97) as f64) * 0.007_919_173 + (c as f64) * 0.000_137_1)
            } else {
                sent
            }
        };
        let mut wout: Vec<Vec<T>> = Vec::with_capacity(out_ch);
        for c in 0..out_ch {
            let mut len = match out_mode {
                "max" => self.res.out_max(),
                _ => out_next,
            } + op
                .get("out_extra_pc")
                .and_then(|a| a.as_array())
                .and_then(|a| a.get(c))
                .and_then(|x| x.as_i64())
                .map(|x| x.max(0) as usize)
                .unwrap_or(out_extra);
            if let Some(s) = &short_out {
                if s.len() == 2 && s[0].as_i64() == Some(c as i64) {
                    let by = s[1].as_i64().unwrap_or(1);
                    len = if by < 0 { 0 } else { out_next.saturating_sub(by as usize) };
                }
            }
            if let Some(by) = op.get("out_short").and_then(|a| a.as_array()).and_then(|a| a.get(c)).and_then(|x| x.as_i64()) {
                len = if by < 0 { 0 } else { out_next.saturating_sub(by as usize) };
            }
            if c < nch && !active(c) && empty_masked {
                len = 0;
            }
            if c < nch && !active(c) && masked_len >= 0 {
                len = len.min(masked_len as usize);
            }
            wout.push((0..len).map(|k| fillv(c, k)).collect());
        }
        let mask_arg: Option<Vec<bool>> = match (&mask_v, op.get("mask_len")) {
            (_, Some(ml)) => {
                let n = (nch as i64 + ml.as_i64().unwrap_or(0)).max(0) as usize;
                // entries beyond the channel count: "mask_tail" (default true)
                let tail = gb(op, "mask_tail", true);
                Some((0..n).map(|c| if c < nch { active(c) } else { tail }).collect())
            }
            (Some(m), None) => Some(m.clone()),
            (None, None) => None,
        };
        let ragged = |key: &str| -> Option<i64> {
            op.get(key).and_then(|a| a.as_array()).map(|a| {
                (0..a.len()).filter_map(|c| per_ch(key, c)).map(|v| v.min(in_next as i64)).max().unwrap_or(0)
            })
        };
        let supplied: i64 = if let Some(v) = ragged("kpc").or_else(|| ragged("zpc")) {
            v
        } else if is_partial {
            k_partial.max(0).min(in_next as i64)
        } else if zero_from >= 0 {
            zero_from.min(in_next as i64)
        } else {
            in_next as i64
        };
        let mut ev = json!({
            "ev": opname, "id": id, "via": via, "pre": pre,
            "k": k_partial, "zero_from": zero_from, "supplied": supplied,
            "in_len": win.iter().map(|v| v.len() as i64).collect::<Vec<_>>(),
            // the allocating wrappers build their own output: no output shape to get wrong
            "out_len": if via == "alloc" || via == "vec_alloc" {
                vec![out_next as i64; nch]
            } else {
                wout.iter().map(|v| v.len() as i64).collect::<Vec<_>>()
            },
            "mask": mask_arg.clone().unwrap_or_default(),
            "has_mask": mask_arg.is_some(),
            "wellformed": gb(op, "wellformed", opname != "bad"),
        });
        call_defaults(ev.as_object_mut().unwrap());
        cx.pending(&ev);
        if let Some(st) = &self.stats {
            st.reset();
        }
        // ---- the call
        enum Out<T> {
            Counts((usize, usize)),
            Vecs(Vec<Vec<T>>),
        }
        let mref = mask_arg.as_deref();
        let res = &mut self.res;
        let h0;
        let h1;
        let result = {
            let win_opt: Option<&[Vec<T>]> = if is_partial && k_partial < 0 {
                None
            } else {
                Some(&win[..])
            };
            // slices variant prepared outside the measured region
            // "alias_to": [a0, a1, ...] - channel c is handed the very same slice as channel a_c (dual mono)
            let alias: Vec<usize> = op
                .get("alias_to")
                .and_then(|a| a.as_array())
                .map(|a| a.iter().map(|x| x.as_i64().unwrap_or(0).max(0) as usize).collect())
                .unwrap_or_default();
            let in_slices: Vec<&[T]> = win
                .iter()
                .enumerate()
                .map(|(c, v)| match alias.get(c) {
                    Some(&a) if a < win.len() => &win[a][..],
                    _ => &v[..],
                })
                .collect();
            // Output slices alias `wout`; they are only used by the "slices" arm, which does not
            // touch `wout` itself.
            let wout_ptr: *mut Vec<Vec<T>> = &mut wout;
            let mut out_slices: Vec<&mut [T]> = if via == "slices" {
                unsafe { (*wout_ptr).iter_mut().map(|v| &mut v[..]).collect() }
            } else {
                Vec::new()
            };
            let out_slices_ptr: *mut Vec<&mut [T]> = &mut out_slices;
            h0 = heap_events();
            let r = catch_unwind(AssertUnwindSafe(|| match (opname.as_str(), via.as_str()) {
                ("partial", "alloc") => res.partial_alloc(win_opt, mref).map(Out::Vecs),
                ("partial", "vec_alloc") => res.as_vec().process_partial(win_opt, mref).map(Out::Vecs),
                ("partial", "vec_into") => res
                    .as_vec()
                    .process_partial_into_buffer(win_opt, &mut wout, mref)
                    .map(Out::Counts),
                ("partial", _) => res.partial_into(win_opt, &mut wout, mref).map(Out::Counts),
                (_, "alloc") => res.process_alloc(&win, mref).map(Out::Vecs),
                (_, "vec_alloc") => res.as_vec().process(&win, mref).map(Out::Vecs),
                (_, "vec_into") => res
                    .as_vec()
                    .process_into_buffer(&win, &mut wout, mref)
                    .map(Out::Counts),
                (_, "slices") => res
                    .process_into_slices(&in_slices, unsafe { &mut *out_slices_ptr }, mref)
                    .map(Out::Counts),
                _ => res.process_into(&win, &mut wout, mref).map(Out::Counts),
            }));
            h1 = heap_events();
            r
        };
        let m = ev.as_object_mut().unwrap();
        let heap = (h1 - h0) as i64;
        m.insert("heap".into(), json!(heap));
        if let Some(st) = &self.stats {
            m.insert("rd".into(), json!(st.snapshot()));
        }
        match result {
            Err(_) => {
                self.dead = true;
                m.insert("res".into(), json!("panic"));
                m.insert(
                    "msg".into(),
                    json!(PANIC_MSG.lock().map(|g| g.clone()).unwrap_or_default()),
                );
            }
            Ok(Err(e)) => {
                let (v, f) = err_json(&e);
                m.insert("res".into(), json!("err"));
                m.insert("variant".into(), json!(v));
                m.insert("ef".into(), json!(f));
                // anything written?
                let dirty = wout
                    .iter()
                    .enumerate()
                    .any(|(c, v)| v.iter().enumerate().any(|(k, x)| x.bits64() != fillv(c, k).bits64()));
                m.insert("dirty_beyond".into(), json!(dirty));
            }
            Ok(Ok(o)) => {
                m.insert("res".into(), json!("ok"));
                let (nin, nout, outs): (usize, usize, Vec<Vec<T>>) = match o {
                    Out::Counts((a, b)) => (a, b, wout),
                    Out::Vecs(v) => {
                        let n = v
                            .iter()
                            .enumerate()
                            .filter(|(c, _)| active(*c))
                            .map(|(_, x)| x.len())
                            .max()
                            .unwrap_or(0);
                        (in_next, n, v)
                    }
                };
                m.insert("nin".into(), json!(nin as i64));
                m.insert("nout".into(), json!(nout as i64));
                m.insert(
                    "outlen".into(),
                    json!(outs.iter().map(|v| v.len() as i64).collect::<Vec<_>>()),
                );
                let by_vec = via == "alloc" || via == "vec_alloc";
                let mut hi = vec![];
                let mut dig = vec![];
                let mut dirty_beyond = false;
                let mut dirty_masked = false;
                let mut tau_chan: Option<usize> = None;
                for (c, v) in outs.iter().enumerate() {
                    if c < nch && active(c) {
                        if tau_chan.is_none() {
                            tau_chan = Some(c);
                        }
                        let upto = nout.min(v.len());
                        if by_vec {
                            hi.push(v.len() as i64);
                        } else {
                            let mut h = 0i64;
                            for (k, x) in v.iter().enumerate() {
                                if x.bits64() != fillv(c, k).bits64() {
                                    h = k as i64 + 1;
                                }
                            }
                            hi.push(h);
                            if h > nout as i64 {
                                dirty_beyond = true;
                            }
                        }
                        dig.push(digest(&v[..upto]));
                        for x in &v[..upto] {
                            fnv(&mut self.stream_hash[c], x.bits64());
                        }
                        self.stream_len[c] += upto as u64;
                    } else {
                        hi.push(if by_vec { v.len() as i64 } else { 0 });
                        dig.push(String::new());
                        if !by_vec && v.iter().enumerate().any(|(k, x)| x.bits64() != fillv(c, k).bits64()) {
                            dirty_masked = true;
                        }
                    }
                }
                m.insert("hi".into(), json!(hi));
                m.insert("dig".into(), json!(dig));
                m.insert("dirty_beyond".into(), json!(dirty_beyond));
                m.insert("dirty_masked".into(), json!(dirty_masked));
                m.insert(
                    "ckpts".into(),
                    json!(self
                        .stream_hash
                        .iter()
                        .zip(self.stream_len.iter())
                        .map(|(h, n)| json!([*n as i64, format!("{:016x}", h)]))
                        .collect::<Vec<_>>()),
                );
                if let (Some(c), true) = (tau_chan, self.blk > 0) {
                    let v = &outs[c];
                    let upto = nout.min(v.len());
                    let mut blocks = vec![];
                    for x in &v[..upto] {
                        self.blk_acc.push(x.bits64());
                        if self.blk_acc.len() == self.blk {
                            let mut h = 0xcbf29ce484222325u64;
                            for b in &self.blk_acc {
                                fnv(&mut h, *b);
                            }
                            blocks.push(format!("{:016x}", h));
                            self.blk_acc.clear();
                        }
                    }
                    m.insert("blocks".into(), json!(blocks));
                }
                if let Some(c) = tau_chan {
                    let v = &outs[c];
                    let upto = nout.min(v.len());
                    self.last_out = v[..upto].iter().map(|x| x.to64()).collect();
                    for x in &self.last_out {
                        if x.abs() > self.sig_peak && x.is_finite() {
                            self.sig_peak = x.abs();
                        }
                    }
                    if self.log_vals {
                        let n = upto.min(self.taus_cap);
                        m.insert(
                            "vals".into(),
                            json!(v[..n].iter().map(|x| fx(x.to64())).collect::<Vec<_>>()),
                        );
                    }
                    match self.signal {
                        Signal::Index => {
                            let n = upto.min(self.taus_cap);
                            m.insert(
                                "taus".into(),
                                json!(v[..n].iter().map(|x| fx(x.to64() - 1.0)).collect::<Vec<_>>()),
                            );
                        }
                        Signal::Impulse(_) => {
                            // integer position and size (in 2^-20) of the largest |value| of this call
                            let mut best = (0usize, 0.0f64);
                            for (k, x) in v[..upto].iter().enumerate() {
                                if x.to64().abs() > best.1 {
                                    best = (k, x.to64().abs());
                                }
                            }
                            m.insert(
                                "peak".into(),
                                json!([best.0 as i64, (best.1 * FRAC).floor().min(1.0e9) as i64]),
                            );
                        }
                        Signal::Poly(_) => {
                            let n = upto.min(self.taus_cap);
                            m.insert(
                                "vals".into(),
                                json!(v[..n].iter().map(|x| fx(x.to64())).collect::<Vec<_>>()),
                            );
                        }
                        _ => {}
                    }
                }
                self.pos += supplied;
            }
        }
        m.insert("post".into(), getters(&self.res));
        m.insert("priv".into(), privs(&self.res));
        cx.emit(ev);
    }

    pub fn op_set_ratio(&mut self, op: &Value, cx: &mut Ctx, orig: f64, maxrel: f64) {
        let rel = gb(op, "rel", false);
        let ramp = gb(op, "ramp", false);
        let xv = op.get("x").cloned().unwrap_or(Value::Null);
        let (lo, hi) = if rel {
            (1.0 / maxrel, maxrel)
        } else {
            (orig / maxrel, orig * maxrel)
        };
        let (x, p, q) = if let Some(cls) = xv.get("cls").and_then(|c| c.as_str()) {
            let u = gi(&xv, "u", 1); // for "in": position lo + (hi-lo)*u/64
            let v = match cls {
                "lo" => lo,
                "hi" => hi,
                "lo_pred" => next_down(lo),
                "lo_succ" => next_up(lo),
                "hi_pred" => next_down(hi),
                "hi_succ" => next_up(hi),
                "below" => lo * 0.75,
                "above" => hi * 1.5,
                "nan" => f64::NAN,
                "inf" => f64::INFINITY,
                "ninf" => f64::NEG_INFINITY,
                "zero" => 0.0,
                "nzero" => -0.0,
                "neg" => -lo.max(1.0),
                "sub" => f64::from_bits(0x0000_0000_0001_0000),
                "one" => {
                    if rel {
                        1.0
                    } else {
                        orig
                    }
                }
                _ => lo + (hi - lo) * (u as f64 / 64.0),
            };
            (v, 0, 0)
        } else {
            parse_ratio(&xv)
        };
        let eff = if rel { orig * x } else { x };
        let pre = getters(&self.res);
        let mut ev = json!({
            "ev":"set_ratio","id":gi(op,"id",0),"rel":rel,"ramp":ramp,"pre":pre,
            "x":words(x),"blo":words(lo),"bhi":words(hi),"eff":ratio_json(eff, if rel {0} else {p}, if rel {0} else {q}),
            "cls": xv.get("cls").and_then(|c| c.as_str()).unwrap_or(""),
        });
        call_defaults(ev.as_object_mut().unwrap());
        cx.pending(&ev);
        let res = &mut self.res;
        let via_vec = gs(op, "via", "") == "vec";
        let h0 = heap_events();
        let r = catch_unwind(AssertUnwindSafe(|| {
            if via_vec {
                // through the object-safe wrapper trait
                let v = res.as_vec();
                if rel {
                    v.set_resample_ratio_relative(x, ramp)
                } else {
                    v.set_resample_ratio(x, ramp)
                }
            } else if rel {
                res.set_ratio_rel(x, ramp)
            } else {
                res.set_ratio(x, ramp)
            }
        }));
        let h1 = heap_events();
        let m = ev.as_object_mut().unwrap();
        m.insert("heap".into(), json!((h1 - h0) as i64));
        match r {
            Err(_) => {
                self.dead = true;
                m.insert("res".into(), json!("panic"));
                m.insert(
                    "msg".into(),
                    json!(PANIC_MSG.lock().map(|g| g.clone()).unwrap_or_default()),
                );
            }
            Ok(Err(e)) => {
                let (v, f) = err_json(&e);
                m.insert("res".into(), json!("err"));
                m.insert("variant".into(), json!(v));
                m.insert("ef".into(), json!(f));
            }
            Ok(Ok(())) => {
                m.insert("res".into(), json!("ok"));
            }
        }
        m.insert("post".into(), getters(&self.res));
        m.insert("priv".into(), privs(&self.res));
        cx.emit(ev);
    }

    /// input_buffer_allocate / output_buffer_allocate: lengths and capacities of what they return
    pub fn op_alloc(&mut self, op: &Value, cx: &mut Ctx) {
        let pre = getters(&self.res);
        let mut ev = json!({"ev":"alloc","id":gi(op,"id",0),"pre":pre});
        call_defaults(ev.as_object_mut().unwrap());
        let lens = |b: &Vec<Vec<T>>| -> Value {
            json!([b.len() as i64,
                   b.iter().map(|v| v.len()).min().unwrap_or(0) as i64,
                   b.iter().map(|v| v.len()).max().unwrap_or(0) as i64,
                   b.iter().map(|v| v.capacity()).min().unwrap_or(0) as i64])
        };
        let m = ev.as_object_mut().unwrap();
        m.insert("in_filled".into(), lens(&self.res.in_alloc(true)));
        m.insert("in_empty".into(), lens(&self.res.in_alloc(false)));
        m.insert("out_filled".into(), lens(&self.res.out_alloc(true)));
        m.insert("out_empty".into(), lens(&self.res.out_alloc(false)));
        m.insert("res".into(), json!("ok"));
        m.insert("post".into(), getters(&self.res));
        m.insert("priv".into(), privs(&self.res));
        cx.emit(ev);
    }

    pub fn op_simple(&mut self, op: &Value, cx: &mut Ctx) {
        let name = gs(op, "op", "getters").to_string();
        let pre = getters(&self.res);
        let n = gi(op, "n", 0);
        let mut ev = json!({"ev":name,"id":gi(op,"id",0),"pre":pre,"n":n});
        call_defaults(ev.as_object_mut().unwrap());
        cx.pending(&ev);
        let res = &mut self.res;
        let h0 = heap_events();
        let r = catch_unwind(AssertUnwindSafe(|| -> Result<(), ResampleError> {
            match name.as_str() {
                "reset" => {
                    res.reset();
                    Ok(())
                }
                "set_chunk" => res.set_chunk(if n < 0 { usize::MAX } else { n as usize }),
                _ => {
                    // all getters
                    let _ = (
                        res.in_next(),
                        res.in_max(),
                        res.out_next(),
                        res.out_max(),
                        res.delay(),
                        res.channels(),
                    );
                    Ok(())
                }
            }
        }));
        let h1 = heap_events();
        let m = ev.as_object_mut().unwrap();
        m.insert("heap".into(), json!((h1 - h0) as i64));
        match r {
            Err(_) => {
                self.dead = true;
                m.insert("res".into(), json!("panic"));
                m.insert(
                    "msg".into(),
                    json!(PANIC_MSG.lock().map(|g| g.clone()).unwrap_or_default()),
                );
            }
            Ok(Err(e)) => {
                let (v, f) = err_json(&e);
                m.insert("res".into(), json!("err"));
                m.insert("variant".into(), json!(v));
                m.insert("ef".into(), json!(f));
            }
            Ok(Ok(())) => {
                m.insert("res".into(), json!("ok"));
                if name == "getters" {
                    // the same getters through the object-safe VecResampler wrapper
                    let v = self.res.as_vec();
                    let c = |u: usize| -> i64 {
                        if u > (1usize << 30) {
                            -1
                        } else {
                            u as i64
                        }
                    };
                    let gv = json!({"in_next":c(v.input_frames_next()),"in_max":c(v.input_frames_max()),
                        "out_next":c(v.output_frames_next()),"out_max":c(v.output_frames_max()),
                        "delay":c(v.output_delay()),"ch":c(v.nbr_channels())});
                    let ib = v.input_buffer_allocate(true);
                    let ob = v.output_buffer_allocate(true);
                    m.insert("gv".into(), gv);
                    m.insert("vec_alloc".into(), json!([ib.len() as i64,
                        ib.iter().map(|x| x.len()).min().unwrap_or(0) as i64,
                        ob.len() as i64, ob.iter().map(|x| x.len()).min().unwrap_or(0) as i64]));
                }
                if name == "reset" {
                    self.pos = 0;
                    for h in self.stream_hash.iter_mut() {
                        *h = 0xcbf29ce484222325;
                    }
                    for l in self.stream_len.iter_mut() {
                        *l = 0;
                    }
                    self.blk_acc.clear();
                }
            }
        }
        m.insert("post".into(), getters(&self.res));
        m.insert("priv".into(), privs(&self.res));
        cx.emit(ev);
    }
}

pub type Slot = (AnyInst, f64, f64);

fn last_out_of(s: &Slot) -> (&Vec<f64>, u32, f64) {
    match &s.0 {
        AnyInst::F32(i) => (&i.last_out, 32, i.sig_peak),
        AnyInst::F64(i) => (&i.last_out, 64, i.sig_peak),
    }
}

/// Numeric guard: largest difference between the last outputs of two instances, in units of
/// eps * peak where eps is the epsilon of the less precise sample type.
fn cmp_event(insts: &[Option<Slot>], op: &Value) -> Value {
    let a = gi(op, "a", 0) as usize;
    let b = gi(op, "b", 1) as usize;
    let mut ev = json!({"ev":"cmp","id":a as i64,"a":a as i64,"b":b as i64,"n":0,"units":0,"peak":fx(0.0),"bits":64,
        "bound": gi(op, "bound", 0)});
    if let (Some(Some(sa)), Some(Some(sb))) = (insts.get(a), insts.get(b)) {
        let (va, ta, pa) = last_out_of(sa);
        let (vb, tb, pb) = last_out_of(sb);
        let n = va.len().min(vb.len());
        let bits = ta.min(tb);
        let eps = if bits == 32 { f32::EPSILON as f64 } else { f64::EPSILON };
        // relative to the signal peak (largest sample supplied or produced so far)
        let mut peak = pa.max(pb);
        let mut diff = 0.0f64;
        for k in 0..n {
            peak = peak.max(va[k].abs()).max(vb[k].abs());
            let d = (va[k] - vb[k]).abs();
            if !(d <= diff) {
                diff = d;
            }
        }
        let units = if peak > 0.0 { (diff / (eps * peak)).ceil() } else if diff > 0.0 { 1.0e9 } else { 0.0 };
        let m = ev.as_object_mut().unwrap();
        m.insert("n".into(), json!(n as i64));
        m.insert("units".into(), json!(if units.is_finite() { units.min(1.0e9) as i64 } else { 1_000_000_000 }));
        m.insert("peak".into(), fx(peak));
        m.insert("bits".into(), json!(bits as i64));
    }
    ev
}

/// Numeric guard of C08: instance a is fed the index signal (its outputs are instant + 1), instance
/// b the polynomial p(n) with identical calls: b's outputs must equal p(instant), in units of
/// eps(b) * max|p| over the compared frames. Frames whose window touches the zero pre-roll are skipped.
fn cmp_poly_event(insts: &[Option<Slot>], op: &Value) -> Value {
    let a = gi(op, "a", 0) as usize;
    let b = gi(op, "b", 1) as usize;
    let mut ev = json!({"ev":"cmp","id":a as i64,"a":a as i64,"b":b as i64,"n":0,"units":0,"peak":fx(0.0),"bits":64,
        "bound": gi(op, "bound", 0), "poly": true});
    if let (Some(Some(sa)), Some(Some(sb))) = (insts.get(a), insts.get(b)) {
        let (va, _, _) = last_out_of(sa);
        let (vb, tb, _) = last_out_of(sb);
        let coef: Vec<f64> = match &sb.0 {
            AnyInst::F32(i) => match &i.signal { Signal::Poly(c) => c.clone(), _ => vec![] },
            AnyInst::F64(i) => match &i.signal { Signal::Poly(c) => c.clone(), _ => vec![] },
        };
        let eps = if tb == 32 { f32::EPSILON as f64 } else { f64::EPSILON };
        let p = |x: f64| -> f64 {
            let mut v = 0.0;
            for k in (0..coef.len()).rev() {
                v = v * x + coef[k];
            }
            v
        };
        let n = va.len().min(vb.len());
        let mut scale = 1.0f64;
        let mut diff = 0.0f64;
        let mut cnt = 0i64;
        for k in 0..n {
            let tau = va[k] - 1.0;
            if tau < 4.0 {
                continue;
            }
            let e = p(tau);
            scale = scale.max(e.abs());
            let d = (vb[k] - e).abs();
            if !(d <= diff) {
                diff = d;
            }
            cnt += 1;
        }
        let units = (diff / (eps * scale)).ceil();
        let m = ev.as_object_mut().unwrap();
        m.insert("n".into(), json!(cnt));
        m.insert("units".into(), json!(if units.is_finite() { units.min(1.0e9) as i64 } else { 1_000_000_000 }));
        m.insert("peak".into(), fx(scale));
        m.insert("bits".into(), json!(tb as i64));
    }
    ev
}

/// One-hot conformance of the sinc kernels (C15): for a wave that is 1.0 at one position and 0
/// elsewhere the scalar product has a single non-zero term, so every kernel must return exactly
/// the table entry it pairs with that position - bit-identically, whatever the summation order,
/// FMA or not - and exactly 0 for positions outside [index, index + L).
fn kernel_events<T: Smp>(op: &Value, cx: &mut Ctx) {
    let l = gi(op, "L", 8) as usize;
    let f = gi(op, "F", 2) as usize;
    let fcut = gi(op, "fcut_milli", 950) as f32 / 1000.0;
    let win = window_of(gs(op, "window", "BlackmanHarris2"));
    let seed = gi(op, "seed", 1) as u64;
    let names = ["scalar", "avx", "sse"];
    let kernels: Vec<Option<Box<dyn SincInterpolator<T>>>> =
        names.iter().map(|n| make_kernel::<T>(n, l, f, fcut, win)).collect();
    let pairs: Vec<(usize, usize, usize)> = op
        .get("pairs")
        .and_then(|a| a.as_array())
        .map(|a| {
            a.iter()
                .filter_map(|p| {
                    let p = p.as_array()?;
                    Some((p[0].as_i64()? as usize, p[1].as_i64()? as usize, p[2].as_i64()? as usize))
                })
                .collect()
        })
        .unwrap_or_default();
    for (index, sub, align) in pairs {
        // the slice handed to the kernel starts `align` elements into an allocation
        let wave_len = index + l + 4;
        let mut store: Vec<T> = vec![T::from64(0.0); wave_len + align + 8];
        let mut digs: Vec<String> = vec![];
        let mut outside_zero: Vec<bool> = vec![];
        let mut inside_nonzero: Vec<i64> = vec![];
        let mut dense: Vec<i64> = vec![];
        let mut nan_ok: Vec<bool> = vec![];
        // dense reference: noise with a huge dynamic range
        let noise: Vec<f64> = (0..wave_len)
            .map(|n| sample_at(&Signal::Big, seed, 0, n as i64))
            .collect();
        let mut ref_dense = 0.0f64;
        let mut sum_abs = 0.0f64;
        for (ki, k) in kernels.iter().enumerate() {
            let k = match k {
                Some(k) => k,
                None => {
                    digs.push("absent".into());
                    nan_ok.push(true);
                    outside_zero.push(true);
                    inside_nonzero.push(-1);
                    dense.push(-1);
                    continue;
                }
            };
            let mut h = 0xcbf29ce484222325u64;
            let mut oz = true;
            let mut nz = 0i64;
            let lo = index.saturating_sub(2);
            for j in lo..(index + l + 2).min(wave_len) {
                for x in store.iter_mut() {
                    *x = T::from64(0.0);
                }
                store[align + j] = T::from64(1.0);
                let wave = &store[align..align + wave_len];
                let v = k.get_sinc_interpolated(wave, index, sub);
                fnv(&mut h, v.bits64());
                let inside = j >= index && j < index + l;
                if !inside && v.to64() != 0.0 {
                    oz = false;
                }
                if inside && v.to64() != 0.0 {
                    nz += 1;
                }
                if ki == 0 && inside {
                    // table entry as seen through the scalar kernel
                    sum_abs += (v.to64() * noise[j]).abs();
                }
            }
            digs.push(format!("{:016x}", h));
            outside_zero.push(oz);
            inside_nonzero.push(nz);
            // the window holds finite noise, EVERYTHING else in the allocation is NaN: a kernel that
            // touches a sample outside [index, index + L) - even with a zero coefficient - returns NaN
            let mut fin = [0u64; 2];
            for (pass, fill) in [0.0f64, f64::NAN].iter().enumerate() {
                for x in store.iter_mut() {
                    *x = T::from64(*fill);
                }
                for j in index..index + l {
                    store[align + j] = T::from64(noise[j]);
                }
                let v = k.get_sinc_interpolated(&store[align..align + wave_len], index, sub);
                fin[pass] = v.bits64();
            }
            nan_ok.push(fin[0] == fin[1]);
            // dense wave
            for (n, x) in noise.iter().enumerate() {
                store[align + n] = T::from64(*x);
            }
            let v = k.get_sinc_interpolated(&store[align..align + wave_len], index, sub).to64();
            if ki == 0 {
                ref_dense = v;
                dense.push(0);
            } else {
                let eps = if T::BITS == 32 { f32::EPSILON as f64 } else { f64::EPSILON };
                let bound = (l as f64) * eps * sum_abs.max(f64::MIN_POSITIVE);
                let units = ((v - ref_dense).abs() / bound * 1000.0).ceil();
                dense.push(if units.is_finite() { units.min(1.0e9) as i64 } else { 1_000_000_000 });
            }
        }
        cx.emit(json!({"ev":"kernel","id":0,"T":T::BITS as i64,"L":l as i64,"F":f as i64,
            "index":index as i64,"sub":sub as i64,"align":align as i64,
            "names":names,"dig":digs,"outside_zero":outside_zero,"inside_nonzero":inside_nonzero,
            "dense_milli":dense,"nan_ok":nan_ok}));
    }
}

/// One operation on the instance table.
fn exec_op(insts: &mut Vec<Option<Slot>>, op: &Value, cx: &mut Ctx) {
    // setters, reset and getters: alternately through the trait (generic code) and with method syntax
    crate::any::VIA_TRAIT.with(|c| c.set(cx.line % 2 == 0));
    let name = gs(op, "op", "");
    let id = gi(op, "id", 0) as usize;
    if name == "new" {
        while insts.len() <= id {
            insts.push(None);
        }
        let (r, _, _) = parse_ratio(op.get("r").unwrap_or(&Value::Null));
        let (mr, _, _) = parse_ratio(op.get("maxrel").unwrap_or(&Value::Null));
        if gi(op, "T", 64) == 32 {
            let (i, ev) = build::<f32>(op);
            cx.emit(ev);
            insts[id] = i.map(|x| (AnyInst::F32(x), r, mr));
        } else {
            let (i, ev) = build::<f64>(op);
            cx.emit(ev);
            insts[id] = i.map(|x| (AnyInst::F64(x), r, mr));
        }
        return;
    }
    if name == "note" {
        let mut ev = op.clone();
        ev.as_object_mut().unwrap().insert("ev".into(), json!("note"));
        cx.emit(ev);
        return;
    }
    if name == "cmp" {
        cx.emit(cmp_event(insts, op));
        return;
    }
    if name == "cmp_poly" {
        cx.emit(cmp_poly_event(insts, op));
        return;
    }
    if name == "kernels" {
        if gi(op, "T", 64) == 32 {
            kernel_events::<f32>(op, cx);
        } else {
            kernel_events::<f64>(op, cx);
        }
        return;
    }
    if name == "drop" {
        // the instance is dropped (its Drop runs here); later ops on this id are skipped
        if let Some(s) = insts.get_mut(id) {
            *s = None;
        }
        return;
    }
    let slot = match insts.get_mut(id) {
        Some(Some(s)) => s,
        _ => return, // instance does not exist (constructor failed): op skipped
    };
    let (orig, maxrel) = (slot.1, slot.2);
    macro_rules! with {
        ($i:ident => $b:expr) => {
            match &mut slot.0 {
                AnyInst::F32($i) => $b,
                AnyInst::F64($i) => $b,
            }
        };
    }
    let dead = with!(i => i.dead);
    if dead {
        return;
    }
    match name {
        "alloc" => with!(i => i.op_alloc(op, cx)),
        "process" | "partial" | "bad" => with!(i => i.op_process(op, cx)),
        "set_ratio" => with!(i => i.op_set_ratio(op, cx, orig, maxrel)),
        "reset" | "set_chunk" | "getters" => with!(i => i.op_simple(op, cx)),
        _ => {}
    }
}

/// Run a whole script (already parsed into ops); events go to `out`.
///
/// * an op with "thread": k > 0 is executed on a freshly spawned OS thread (the instance is handed
///   over and back at that call boundary);
/// * ops between {"op":"par_begin"} and {"op":"par_end"} are partitioned by their "thread" field
///   and the partitions run concurrently (each on its own instances), released by a barrier.
pub fn run_script(ops: &[Value], out: Out) {
    let mut insts: Vec<Option<Slot>> = Vec::new();
    let mut k = 0;
    while k < ops.len() {
        let op = &ops[k];
        let name = gs(op, "op", "");
        if name == "par_begin" {
            let mut end = k + 1;
            while end < ops.len() && gs(&ops[end], "op", "") != "par_end" {
                end += 1;
            }
            // partition by thread
            let mut groups: std::collections::BTreeMap<i64, Vec<(usize, &Value)>> = Default::default();
            for (ln, o) in ops.iter().enumerate().take(end).skip(k + 1) {
                groups.entry(gi(o, "thread", 0)).or_default().push((ln, o));
            }
            // hand every thread the instances it uses (ids must be disjoint between threads)
            let maxid = ops[k + 1..end].iter().map(|o| gi(o, "id", 0)).max().unwrap_or(0) as usize;
            while insts.len() <= maxid {
                insts.push(None);
            }
            let mut tables: Vec<(i64, Vec<(usize, &Value)>, Vec<Option<Slot>>)> = Vec::new();
            for (t, g) in groups {
                let mut table: Vec<Option<Slot>> = (0..=maxid).map(|_| None).collect();
                for (_, o) in &g {
                    let id = gi(o, "id", 0) as usize;
                    if table[id].is_none() {
                        table[id] = insts[id].take();
                    }
                }
                tables.push((t, g, table));
            }
            let barrier = std::sync::Barrier::new(tables.len());
            let results: Vec<(Vec<usize>, Vec<Option<Slot>>)> = std::thread::scope(|s| {
                let hs: Vec<_> = tables
                    .into_iter()
                    .map(|(t, g, mut table)| {
                        let out = out.clone();
                        let barrier = &barrier;
                        s.spawn(move || {
                            let mut cx = Ctx { out, line: 0, thread: t };
                            let ids: Vec<usize> = g.iter().map(|(_, o)| gi(o, "id", 0) as usize).collect();
                            barrier.wait();
                            for (ln, o) in g {
                                cx.line = ln as i64 + 1;
                                exec_op(&mut table, o, &mut cx);
                            }
                            (ids, table)
                        })
                    })
                    .collect();
                hs.into_iter().map(|h| h.join().expect("par thread")).collect()
            });
            for (ids, mut table) in results {
                for id in ids {
                    if table[id].is_some() {
                        insts[id] = table[id].take();
                    }
                }
            }
            k = end + 1;
            continue;
        }
        let t = gi(op, "thread", 0);
        let mut cx = Ctx { out: out.clone(), line: k as i64 + 1, thread: t };
        if t > 0 {
            let insts_ref = &mut insts;
            std::thread::scope(|s| {
                s.spawn(move || exec_op(insts_ref, op, &mut cx)).join().expect("op thread");
            });
        } else {
            exec_op(&mut insts, op, &mut cx);
        }
        k += 1;
    }
}
