pub mod alloc;
pub mod any;
pub mod exec;
pub mod probe;
