//! SincInterpolator implementations handed to `new_with_interpolator`.
//!
//! * `LinearProbe`: a two-tap "kernel" that is exact on linear signals. It evaluates the wave at
//!   the centre of the polyphase branch the real kernels would use:
//!   `index + L/2 - 1 + (sub+1)/F` (read off `make_sincs`: sincs[F-n-1][p] = y[F*p+n], peak at
//!   F*p+n = F*L/2). Fed the index signal x[n]=n, the resampler's output *is* the evaluation instant.
//!   It performs the same two asserts as the real kernels so that it fails where they fail.
//! * `RecordingProbe`: delegates to a real kernel and records the extents it was asked for.

use rubato::sinc_interpolator::SincInterpolator;
use std::sync::atomic::{AtomicU64, Ordering};
use std::sync::Arc;

pub trait Smp: rubato::Sample + Copy + Send + Sync + 'static {
    const BITS: u32;
    fn to64(self) -> f64;
    fn from64(v: f64) -> Self;
    fn bits64(self) -> u64;
}
impl Smp for f32 {
    const BITS: u32 = 32;
    fn to64(self) -> f64 {
        self as f64
    }
    fn from64(v: f64) -> Self {
        v as f32
    }
    fn bits64(self) -> u64 {
        self.to_bits() as u64
    }
}
impl Smp for f64 {
    const BITS: u32 = 64;
    fn to64(self) -> f64 {
        self
    }
    fn from64(v: f64) -> Self {
        v
    }
    fn bits64(self) -> u64 {
        self.to_bits()
    }
}

/// Extents of the (index, subindex) pairs requested since the last `take`.
#[derive(Default)]
pub struct ProbeStats {
    pub calls: AtomicU64,
    pub min_index: AtomicU64,
    pub max_index: AtomicU64,
    pub max_sub: AtomicU64,
    pub min_wavelen: AtomicU64,
    /// windows that were not made of consecutive frames (index signal x[n]=n+1, zeros before the stream)
    pub noncontig: AtomicU64,
    /// largest frame value (n+1) found in a window
    pub max_value: AtomicU64,
    pub check_contig: std::sync::atomic::AtomicBool,
}

impl ProbeStats {
    pub fn new() -> Arc<Self> {
        let s = ProbeStats::default();
        s.reset();
        Arc::new(s)
    }
    pub fn reset(&self) {
        self.calls.store(0, Ordering::Relaxed);
        self.min_index.store(u64::MAX, Ordering::Relaxed);
        self.max_index.store(0, Ordering::Relaxed);
        self.max_sub.store(0, Ordering::Relaxed);
        self.min_wavelen.store(u64::MAX, Ordering::Relaxed);
        self.noncontig.store(0, Ordering::Relaxed);
        self.max_value.store(0, Ordering::Relaxed);
    }
    /// With the index signal x[n]=n+1 (and zeros before the stream) every kernel window must hold
    /// consecutive frame numbers: zeros, then 1,2,3.. or a,a+1,.. . Anything else was skipped,
    /// repeated, stale or never supplied.
    pub fn check_window<T: Smp>(&self, wave: &[T], index: usize, len: usize) {
        if !self.check_contig.load(Ordering::Relaxed) {
            return;
        }
        if index >= wave.len() || index + len > wave.len() {
            return;
        }
        let w = &wave[index..index + len];
        let mut ok = true;
        let mut prev = w[0].to64();
        if prev < 0.0 {
            ok = false;
        }
        for x in &w[1..] {
            let v = x.to64();
            if prev == 0.0 {
                if !(v == 0.0 || v == 1.0) {
                    ok = false;
                }
            } else if v != prev + 1.0 {
                ok = false;
            }
            prev = v;
        }
        if !ok {
            self.noncontig.fetch_add(1, Ordering::Relaxed);
        }
        if prev >= 0.0 && prev < 1.0e9 {
            self.max_value.fetch_max(prev as u64, Ordering::Relaxed);
        }
    }
    #[inline]
    pub fn record(&self, wavelen: usize, index: usize, sub: usize) {
        self.calls.fetch_add(1, Ordering::Relaxed);
        self.min_index.fetch_min(index as u64, Ordering::Relaxed);
        self.max_index.fetch_max(index as u64, Ordering::Relaxed);
        self.max_sub.fetch_max(sub as u64, Ordering::Relaxed);
        self.min_wavelen.fetch_min(wavelen as u64, Ordering::Relaxed);
    }
    /// [calls, min_index, max_index, max_sub, min_wavelen, noncontiguous windows, max frame value];
    /// values that do not fit 30 bits (a negative isize cast to usize) are reported as -1.
    pub fn snapshot(&self) -> [i64; 7] {
        let c = |v: u64| -> i64 {
            if v > (1 << 30) {
                -1
            } else {
                v as i64
            }
        };
        let calls = self.calls.load(Ordering::Relaxed);
        if calls == 0 {
            return [0, 0, 0, 0, 0, 0, 0];
        }
        [
            c(calls),
            c(self.min_index.load(Ordering::Relaxed)),
            c(self.max_index.load(Ordering::Relaxed)),
            c(self.max_sub.load(Ordering::Relaxed)),
            c(self.min_wavelen.load(Ordering::Relaxed)),
            c(self.noncontig.load(Ordering::Relaxed)),
            c(self.max_value.load(Ordering::Relaxed)),
        ]
    }
}

pub struct LinearProbe {
    pub len: usize,
    pub nbr: usize,
    pub stats: Arc<ProbeStats>,
}

impl<T: Smp> SincInterpolator<T> for LinearProbe {
    fn get_sinc_interpolated(&self, wave: &[T], index: usize, subindex: usize) -> T {
        self.stats.record(wave.len(), index, subindex);
        self.stats.check_window(wave, index, self.len);
        // the asserts of the real kernels (sinc_interpolator/mod.rs)
        assert!(
            (index.wrapping_add(self.len)) < wave.len() && index < wave.len(),
            "Tried to interpolate for index {}, max for the given input is {}",
            index,
            wave.len() as i64 - self.len as i64 - 1
        );
        assert!(
            subindex < self.nbr,
            "Tried to use sinc subindex {}, max is {}",
            subindex,
            self.nbr as i64 - 1
        );
        let (i0, frac) = if subindex + 1 == self.nbr {
            (index + self.len / 2, 0.0f64)
        } else {
            (
                index + self.len / 2 - 1,
                (subindex + 1) as f64 / self.nbr as f64,
            )
        };
        let a = wave[i0].to64();
        if frac == 0.0 {
            return T::from64(a);
        }
        let b = wave[i0 + 1].to64();
        T::from64(a + frac * (b - a))
    }
    fn len(&self) -> usize {
        self.len
    }
    fn nbr_sincs(&self) -> usize {
        self.nbr
    }
}

pub struct RecordingProbe<T> {
    pub inner: Box<dyn SincInterpolator<T>>,
    pub stats: Arc<ProbeStats>,
}

impl<T: Smp> SincInterpolator<T> for RecordingProbe<T> {
    fn get_sinc_interpolated(&self, wave: &[T], index: usize, subindex: usize) -> T {
        self.stats.record(wave.len(), index, subindex);
        self.stats.check_window(wave, index, self.inner.len());
        self.inner.get_sinc_interpolated(wave, index, subindex)
    }
    fn len(&self) -> usize {
        self.inner.len()
    }
    fn nbr_sincs(&self) -> usize {
        self.inner.nbr_sincs()
    }
}
