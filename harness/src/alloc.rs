//! Counting global allocator: per-thread count of heap events (alloc, dealloc, realloc).
//! Used for C09 (process_into_buffer and the setters/getters never touch the heap).

use std::alloc::{GlobalAlloc, Layout, System};
use std::cell::Cell;

pub struct Counting;

thread_local! {
    // const-initialised, no lazy allocation, no destructor: safe to touch from the allocator.
    static EVENTS: Cell<u64> = const { Cell::new(0) };
}

#[inline]
fn bump() {
    let _ = EVENTS.try_with(|c| c.set(c.get().wrapping_add(1)));
}

unsafe impl GlobalAlloc for Counting {
    unsafe fn alloc(&self, l: Layout) -> *mut u8 {
        bump();
        System.alloc(l)
    }
    unsafe fn dealloc(&self, p: *mut u8, l: Layout) {
        bump();
        System.dealloc(p, l)
    }
    unsafe fn alloc_zeroed(&self, l: Layout) -> *mut u8 {
        bump();
        System.alloc_zeroed(l)
    }
    unsafe fn realloc(&self, p: *mut u8, l: Layout, n: usize) -> *mut u8 {
        bump();
        System.realloc(p, l, n)
    }
}

/// Number of heap events performed so far by the calling thread.
pub fn heap_events() -> u64 {
    EVENTS.try_with(|c| c.get()).unwrap_or(0)
}
