//! One enum over the seven resampler types (the `Resampler` trait is not object safe and the
//! object-safe `VecResampler` lacks `reset`/`set_chunk_size`).

use crate::probe::Smp;
use rubato::{
    FastFixedIn, FastFixedOut, FftFixedIn, FftFixedInOut, FftFixedOut, ResampleResult, Resampler,
    SincFixedIn, SincFixedOut, VerifState,
};

pub enum AnyRes<T: Smp> {
    FastIn(FastFixedIn<T>),
    FastOut(FastFixedOut<T>),
    SincIn(SincFixedIn<T>),
    SincOut(SincFixedOut<T>),
    FftIn(FftFixedIn<T>),
    FftOut(FftFixedOut<T>),
    FftInOut(FftFixedInOut<T>),
}

macro_rules! each {
    ($self:expr, $r:ident => $body:expr) => {
        match $self {
            AnyRes::FastIn($r) => $body,
            AnyRes::FastOut($r) => $body,
            AnyRes::SincIn($r) => $body,
            AnyRes::SincOut($r) => $body,
            AnyRes::FftIn($r) => $body,
            AnyRes::FftOut($r) => $body,
            AnyRes::FftInOut($r) => $body,
        }
    };
}

thread_local! {
    /// How the setters, reset and the getters are called: TRUE = through the `Resampler` trait (what generic
    /// code bounded by the trait resolves to), FALSE = method syntax on the concrete type (an inherent method
    /// of the same name would win). Both must be the same thing; the driver alternates per script line.
    pub static VIA_TRAIT: std::cell::Cell<bool> = const { std::cell::Cell::new(false) };
}

fn via_trait() -> bool {
    VIA_TRAIT.with(|c| c.get())
}

impl<T: Smp> AnyRes<T> {
    pub fn in_next(&self) -> usize {
        if via_trait() { each!(self, r => rubato::Resampler::<T>::input_frames_next(r)) } else { each!(self, r => r.input_frames_next()) }
    }
    pub fn in_max(&self) -> usize {
        if via_trait() { each!(self, r => rubato::Resampler::<T>::input_frames_max(r)) } else { each!(self, r => r.input_frames_max()) }
    }
    pub fn out_next(&self) -> usize {
        if via_trait() { each!(self, r => rubato::Resampler::<T>::output_frames_next(r)) } else { each!(self, r => r.output_frames_next()) }
    }
    pub fn out_max(&self) -> usize {
        if via_trait() { each!(self, r => rubato::Resampler::<T>::output_frames_max(r)) } else { each!(self, r => r.output_frames_max()) }
    }
    pub fn delay(&self) -> usize {
        if via_trait() { each!(self, r => rubato::Resampler::<T>::output_delay(r)) } else { each!(self, r => r.output_delay()) }
    }
    pub fn channels(&self) -> usize {
        if via_trait() { each!(self, r => rubato::Resampler::<T>::nbr_channels(r)) } else { each!(self, r => r.nbr_channels()) }
    }
    pub fn vstate(&self) -> VerifState {
        each!(self, r => r.verif_state())
    }
    pub fn process_into(
        &mut self,
        i: &[Vec<T>],
        o: &mut [Vec<T>],
        m: Option<&[bool]>,
    ) -> ResampleResult<(usize, usize)> {
        each!(self, r => r.process_into_buffer(i, o, m))
    }
    /// same call through slices-of-slices (exercises the generic AsRef/AsMut path)
    pub fn process_into_slices(
        &mut self,
        i: &[&[T]],
        o: &mut [&mut [T]],
        m: Option<&[bool]>,
    ) -> ResampleResult<(usize, usize)> {
        each!(self, r => r.process_into_buffer(i, o, m))
    }
    pub fn process_alloc(&mut self, i: &[Vec<T>], m: Option<&[bool]>) -> ResampleResult<Vec<Vec<T>>> {
        each!(self, r => r.process(i, m))
    }
    pub fn partial_into(
        &mut self,
        i: Option<&[Vec<T>]>,
        o: &mut [Vec<T>],
        m: Option<&[bool]>,
    ) -> ResampleResult<(usize, usize)> {
        each!(self, r => r.process_partial_into_buffer(i, o, m))
    }
    pub fn partial_alloc(
        &mut self,
        i: Option<&[Vec<T>]>,
        m: Option<&[bool]>,
    ) -> ResampleResult<Vec<Vec<T>>> {
        each!(self, r => r.process_partial(i, m))
    }
    pub fn set_ratio(&mut self, x: f64, ramp: bool) -> ResampleResult<()> {
        if via_trait() { each!(self, r => rubato::Resampler::<T>::set_resample_ratio(r, x, ramp)) } else { each!(self, r => r.set_resample_ratio(x, ramp)) }
    }
    pub fn set_ratio_rel(&mut self, x: f64, ramp: bool) -> ResampleResult<()> {
        if via_trait() { each!(self, r => rubato::Resampler::<T>::set_resample_ratio_relative(r, x, ramp)) } else { each!(self, r => r.set_resample_ratio_relative(x, ramp)) }
    }
    pub fn set_chunk(&mut self, n: usize) -> ResampleResult<()> {
        if via_trait() { each!(self, r => rubato::Resampler::<T>::set_chunk_size(r, n)) } else { each!(self, r => r.set_chunk_size(n)) }
    }
    pub fn reset(&mut self) {
        if via_trait() { each!(self, r => rubato::Resampler::<T>::reset(r)) } else { each!(self, r => r.reset()) }
    }
    pub fn in_alloc(&self, filled: bool) -> Vec<Vec<T>> {
        if via_trait() { each!(self, r => rubato::Resampler::<T>::input_buffer_allocate(r, filled)) } else { each!(self, r => r.input_buffer_allocate(filled)) }
    }
    pub fn out_alloc(&self, filled: bool) -> Vec<Vec<T>> {
        if via_trait() { each!(self, r => rubato::Resampler::<T>::output_buffer_allocate(r, filled)) } else { each!(self, r => r.output_buffer_allocate(filled)) }
    }
    pub fn as_vec(&mut self) -> &mut dyn rubato::VecResampler<T> {
        each!(self, r => r as &mut dyn rubato::VecResampler<T>)
    }
}
