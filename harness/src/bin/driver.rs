//! driver worker <script>            run a script in this process, events to stdout
//! driver run <script> <trace>       run a script in a worker process, write the trace file
//! driver batch <list> <jobs>        list: lines "<script>\t<trace>"; runs them in parallel workers
//!
//! A worker that dies (abort from an unsafe-precondition check, SIGSEGV, ...) is data, not an
//! error: the pending event becomes res="abort".

use rubato_verif_harness::alloc::Counting;
use rubato_verif_harness::exec;
use serde_json::{json, Value};
use std::io::{BufRead, BufReader, Write};
use std::os::unix::process::ExitStatusExt;
use std::process::{Command, Stdio};
use std::sync::atomic::{AtomicUsize, Ordering};
use std::sync::Arc;

#[global_allocator]
static A: Counting = Counting;

fn read_script(path: &str) -> Vec<Value> {
    let f = std::fs::File::open(path).expect("script not readable");
    BufReader::new(f)
        .lines()
        .map_while(Result::ok)
        .filter(|l| !l.trim().is_empty())
        .map(|l| serde_json::from_str::<Value>(&l).expect("bad script line"))
        .collect()
}

fn worker(script: &str) {
    exec::install_panic_hook();
    let ops = read_script(script);
    let out: exec::Out = std::sync::Arc::new(std::sync::Mutex::new(Box::new(std::io::stdout())));
    exec::run_script(&ops, out);
}

fn run_one(script: &str, trace: &str) -> std::io::Result<()> {
    let exe = std::env::current_exe()?;
    let child = Command::new(exe)
        .arg("worker")
        .arg(script)
        .stdin(Stdio::null())
        .stdout(Stdio::piped())
        .stderr(Stdio::null())
        .spawn()?;
    let out = child.wait_with_output()?;
    let mut events: Vec<Value> = Vec::new();
    let mut pending: Option<Value> = None;
    for l in out.stdout.split(|b| *b == b'\n') {
        if l.is_empty() {
            continue;
        }
        let v: Value = match serde_json::from_slice(l) {
            Ok(v) => v,
            Err(_) => continue, // torn last line of a dying worker
        };
        if v.get("pending").is_some() {
            pending = Some(v);
        } else {
            pending = None;
            events.push(v);
        }
    }
    let mut why = "done".to_string();
    if !out.status.success() {
        let sig = out.status.signal().unwrap_or(0);
        why = format!("abort sig={} code={}", sig, out.status.code().unwrap_or(-1));
        if let Some(mut p) = pending.take() {
            let m = p.as_object_mut().unwrap();
            m.remove("pending");
            m.insert("res".into(), json!("abort"));
            m.insert("msg".into(), json!(why.clone()));
            if let Some(pre) = m.get("pre").cloned() {
                m.entry("post").or_insert(pre);
            }
            m.entry("priv").or_insert(json!({}));
            events.push(p);
        }
    } else if events.iter().any(|e| e["res"] == "panic") {
        why = "panic".into();
    }
    let mut f = std::io::BufWriter::new(std::fs::File::create(trace)?);
    writeln!(f, "{}", json!({"ev":"begin","script":script}))?;
    for e in &events {
        writeln!(f, "{}", e)?;
    }
    writeln!(f, "{}", json!({"ev":"end","why":why}))?;
    Ok(())
}

fn main() {
    let args: Vec<String> = std::env::args().collect();
    match args.get(1).map(|s| s.as_str()) {
        Some("worker") => worker(&args[2]),
        Some("run") => run_one(&args[2], &args[3]).expect("run failed"),
        Some("batch") => {
            let list: Vec<(String, String)> = std::fs::read_to_string(&args[2])
                .expect("list")
                .lines()
                .filter_map(|l| {
                    let mut it = l.split('\t');
                    Some((it.next()?.to_string(), it.next()?.to_string()))
                })
                .collect();
            let jobs: usize = args.get(3).and_then(|s| s.parse().ok()).unwrap_or(8);
            let list = Arc::new(list);
            let next = Arc::new(AtomicUsize::new(0));
            let mut hs = vec![];
            for _ in 0..jobs {
                let list = list.clone();
                let next = next.clone();
                hs.push(std::thread::spawn(move || loop {
                    let k = next.fetch_add(1, Ordering::SeqCst);
                    if k >= list.len() {
                        break;
                    }
                    if let Err(e) = run_one(&list[k].0, &list[k].1) {
                        eprintln!("driver: {}: {}", list[k].0, e);
                        std::process::exit(2);
                    }
                }));
            }
            for h in hs {
                h.join().unwrap();
            }
        }
        _ => {
            eprintln!("usage: driver worker|run|batch ...");
            std::process::exit(2);
        }
    }
}
