"""Per-property check plans (single-instance properties: trace validation against Contract)."""
import glob, json, os, random, time
from fractions import Fraction
from . import gen, model, run

Q_ASYNC = 195840   # 2^8 * 3^2 * 5 * 17: every ramp increment of the model constants is a whole tick

PREDICATES = {
    "C03": ["C03_CallOk"],
    "C04": ["C04_Bounds", "C04_Consumed", "C04_Written", "C04_Allocate", "C04_LifeBounds"],
    "C06": ["C06_Increasing", "C06_StepInRange", "C06_RampMonotone", "C06_RampMoves", "C06_Supplied"],
    "C07": ["C07_NoDrift", "C07_FftExact", "C07_FftBlock"],
    "C09": ["C09_NoHeap"],
    # "...then behaves as set_resample_ratio(original*x)": the spacing of the evaluation instants after an
    # accepted change is the one the contract state (tgt := original*x) predicts
    "C12": ["C12_RatioDomain", "C12_RejectNoop", "C12_ChunkDomain", "C12_ChunkEffect", "C06_StepInRange"],
    "C13": ["C13_ErrVariant", "C13_Untouched", "C13_Ctor"],
    "C14": ["C14_Delay", "C14_Peak"],
}

# model invariants that express the property on the as-is models
MODEL_INV = {
    "C03": (["C03_ReadInBuffer", "C03_SubIndex", "C03_LoadFits", "PosBounded"], ["C03_InBuffer", "TypeOK"]),
    "C04": (["C04_Written", "C04_Bounds"], ["C04_Bounds", "C04_Delivers"]),
    "C06": (["C06_Supplied", "C03_ReadInBuffer"], None),
    "C07": (["C07_NoDrift", "PosBounded"], ["C07_Drift", "C07_DriftIsSaved", "C07_Blocks"]),
    "C09": (["C03_ReadInBuffer"], ["TypeOK"]),
    "C12": (["C04_Bounds"], ["C04_Bounds"]),
    "C13": (["C04_Bounds"], ["C04_Bounds"]),
    "C14": (["PosBounded"], ["C07_Blocks"]),
}

WITNESSES = {
    "C03": ["D3", "D8b", "D8b-overshoot", "KF-D8a", "KF-D8c", "KF-D9", "D5", "D12"],
    "C04": ["D3", "D8d", "D15", "KF-D8c"],
    "C06": ["D1", "D8d", "D11", "D11b", "D14", "D8b", "KF-D9"],
    "C07": ["D3", "D12"],
    "C09": ["D5"],
    "C12": ["D4"],
    "C13": ["D5"],
    "C14": ["D1", "D8d"],
}


def load_known():
    with open(os.path.join(run.VERIF, "known_findings.json")) as f:
        kf = json.load(f)
    return {k["id"]: k for k in kf["findings"]}


# ------------------------------------------------------------------------------------------------
# model phase

def model_configs(prop, tier):
    """(module, tag, cfg_text(emit=False), cfg_text(emit=True), conv, q)"""
    thorough = tier == "thorough"
    ainv, finv = MODEL_INV[prop]
    out = []
    if ainv is not None:
        d = 5 if thorough else 4
        out.append(("AsyncPos", "fast", dict(
            fam="Fast", variants=["In", "Out"],
            interps=["Septic", "Quintic", "Cubic", "Linear", "Nearest"] if thorough else ["Septic", "Linear", "Nearest"],
            fs=[1], L=8, chunkmaxs=[4, 8, 16] if thorough else [4, 8], chunks=[],
            ratios=[1002, 1001, 2001, 4001, 1004], origs=[1001, 1002, 2001] if thorough else [1001, 1002],
            maxrels=[1001, 2001, 4001], q=Q_ASYNC, depth=d, invariants=ainv), model.async_script, Q_ASYNC))
        out.append(("AsyncPos", "sinc", dict(
            fam="Sinc", variants=["In", "Out"],
            interps=["Cubic", "Quadratic", "Linear", "Nearest"], fs=[1, 2, 4] if thorough else [2, 4], L=8,
            chunkmaxs=[8, 16], chunks=[4, 8], ratios=[1002, 1001, 2001] + ([4001, 1004] if thorough else []),
            origs=[1001, 1002], maxrels=[1001, 2001, 4001], q=Q_ASYNC, depth=d if thorough else 3,
            invariants=ainv), model.async_script, Q_ASYNC))
    if finv is not None:
        out.append(("FftBlocks", "fft", dict(
            kinds=["FftFixedIn", "FftFixedOut", "FftFixedInOut"],
            rates=[1, 2, 3, 4, 5, 7] if thorough else [1, 2, 3, 4, 5],
            chunks=[1, 2, 3, 4, 5, 6, 8, 9, 12] if thorough else [1, 2, 3, 4, 6, 8],
            subs=[1, 2, 3], depth=0, invariants=finv), model.fft_script, None))
    return out


def emit_behaviours(module, tag, params, tier, seed, wd, prop, rng, quick_n=400, thorough_n=6000):
    """Replay scripts drawn from an as-is model. Quick: TLC random simulation (seeded, depth 7), a
    few seconds; thorough: additionally every behaviour of the exhaustive exploration to depth 4
    (one script per explored transition) and deeper simulations."""
    pe = dict(params)
    pe["depth"] = 0 if module == "FftBlocks" else 60
    out = []
    if tier == "quick":
        r = model.check_model(module, cfg_text(module, pe, True), wd, "%s-%s-sim" % (prop, tag), workers=1,
                              timeout=900, simulate=(quick_n, 7, seed % 100000 + 1))
        out = model.maximal(r["replays"], limit=quick_n, rng=rng)
    else:
        r = model.check_model(module, cfg_text(module, pe, True), wd, "%s-%s-sim" % (prop, tag), workers=1,
                              timeout=1800, simulate=(thorough_n // 2, 12, seed % 100000 + 1))
        out = model.maximal(r["replays"], limit=thorough_n // 2, rng=rng)
        # exhaustive emission on the quick-tier constants (printing one script per explored transition
        # is what costs; the sample is capped anyway)
        qparams = [m for m in model_configs(prop if prop in MODEL_INV else "C03", "quick") if m[1] == tag]
        pe2 = dict(qparams[0][2]) if qparams else dict(params)
        pe2["invariants"] = params["invariants"]
        demit = None
        if module == "FftBlocks":
            pe2["depth"] = 6
        else:
            demit = 4 if tag == "fast" else 3
        r2 = model.check_model(module, cfg_text(module, pe2, True, demit), wd, "%s-%s-emit" % (prop, tag),
                               workers=1, timeout=3000)
        out += model.maximal(r2["replays"], limit=thorough_n // 2, rng=rng)
    return out


def cfg_text(module, params, emit, depth_emit=None):
    p = dict(params)
    if emit and depth_emit is not None:
        p["depth"] = depth_emit
    if module == "AsyncPos":
        return model.async_cfg(p["fam"], p["variants"], p["interps"], p["fs"], p["L"], p["chunkmaxs"],
                               p["chunks"], p["ratios"], p["origs"], p["maxrels"], p["q"], p["depth"],
                               emit=emit, invariants=p["invariants"])
    return model.fft_cfg(p["kinds"], p["rates"], p["chunks"], p["subs"], depth=p["depth"], emit=emit,
                         invariants=p["invariants"])


# ------------------------------------------------------------------------------------------------
# generated scripts per property

def gen_scripts(prop, tier, rng):
    n = {"quick": 100, "thorough": 400}[tier]
    S = []
    if prop in ("C03", "C04"):
        for _ in range(n):
            for kind in gen.KINDS:
                S.append(gen.valid_history(rng, kind, 25))
                S.append(gen.valid_history(rng, kind, 20, small=True))
        # first chunk at the extreme ratio with a whole-number need
        for _ in range(3 * n):
            for kind in gen.ASYNC:
                S.append(gen.extreme_bound_history(rng, kind))
        # setter calls that supersede a pending request
        for _ in range(2 * n):
            for kind in gen.ASYNC:
                S.append(gen.superseded_history(rng, kind))
        # chunk x ratio products that are integers in exact arithmetic, next to powers of two
        for _ in range(3 * n):
            for kind in gen.ASYNC:
                S.append(gen.integer_product_history(rng, kind))
        # chunk sizes beyond 2^16
        for _ in range(max(2, n // 12)):
            for kind in gen.KINDS:
                S.append(gen.huge_history(rng, kind))
        # long streams at a constant configuration
        for _ in range(max(2, n // 12)):
            for kind in gen.KINDS:
                S.append(gen.long_history(rng, kind))
        # awkward ratios and chunk sizes
        for _ in range(max(2, n // 6)):
            for kind in gen.ASYNC:
                S.append(gen.awkward_history(rng, kind))
        if prop == "C04":
            # input_buffer_allocate / output_buffer_allocate at arbitrary history points
            for ops in S:
                for k in sorted(rng.sample(range(1, len(ops) + 1), min(3, len(ops))), reverse=True):
                    ops.insert(k, {"op": "alloc", "id": 0})
        # real kernels (dispatch and each explicit kernel) on noise: the kernels' own asserts
        for _ in range(n):
            for kind in ("SincFixedIn", "SincFixedOut"):
                S.append(gen.valid_history(rng, kind, 15, signal="noise", varymask=rng.random() < 0.5,
                                           probe=rng.choice(["dispatch", "rec", "scalar", "avx", "sse"])))
            for kind in gen.FFT + ["FastFixedIn", "FastFixedOut"]:
                S.append(gen.valid_history(rng, kind, 15, signal="noise", varymask=True, ch=rng.choice([2, 3, 4])))
    elif prop == "C06":
        for _ in range(n):
            for kind in gen.ASYNC:
                S.append(gen.superseded_history(rng, kind))
        for _ in range(max(2, n // 6)):
            for kind in gen.ASYNC:
                S.append(gen.awkward_history(rng, kind))
        for _ in range(2 * n):
            for kind in gen.ASYNC:
                S.append(gen.valid_history(rng, kind, 30, allow=("ratio", "ramp", "chunk", "reset"), T=64))
                S.append(gen.valid_history(rng, kind, 25, small=True, allow=("ratio", "ramp", "chunk"), T=64))
        for _ in range(n):
            for kind in gen.ASYNC:
                S.append(gen.valid_history(rng, kind, 20, allow=("ratio", "ramp"), T=32))
    elif prop == "C07":
        for _ in range(n):
            for kind in gen.ASYNC:
                S.append(gen.preset_ratio_history(rng, kind, 40))
            for kind in gen.KINDS:
                S.append(gen.valid_history(rng, kind, 60, allow=("chunk", "via")))
                S.append(gen.valid_history(rng, kind, 120, small=True, allow=("chunk",), chunk=1))
        for _ in range(n):
            for kind in gen.FFT:
                S.append(gen.valid_history(rng, kind, 40, allow=("reset",)))
        for _ in range(max(2, n // 8)):
            for kind in gen.KINDS:
                S.append(gen.long_history(rng, kind))
        # nearest-point selection with few sub-filters, tiny chunks, hundreds of calls at an off-grid ratio: a
        # position that is re-quantised at every chunk boundary drifts (seeded change C07e)
        for _ in range(max(2, n // 5)):
            for kind in ("SincFixedIn", "SincFixedOut", "SincFixedOut"):
                h = gen.long_history(rng, kind)
                h[0]["interp"] = "Nearest"
                h[0]["F"] = rng.choice([2, 3, 16])
                h[0]["chunk"] = rng.choice([1, 2, 3])
                S.append(h)
    elif prop == "C09":
        for _ in range(n):
            for kind in gen.KINDS:
                S.append(gen.rt_history(rng, kind, 30))
                S.append(gen.rt_history(rng, kind, 20, small=True))
        # several live instances used alternately on one thread
        for _ in range(3 * n):
            S.append(gen.rt_pair_history(rng))
    elif prop == "C12":
        for _ in range(2 * n):
            for kind in gen.KINDS:
                S.append(gen.setter_history(rng, kind, 30))
    elif prop == "C13":
        for _ in range(n):
            for kind in gen.KINDS:
                S.append(gen.bad_history(rng, kind, 20))
                S.append(gen.bad_history(rng, kind, 12, small=True))
        S.append(gen.ctor_table(rng))
        for _ in range(n):
            S.append(gen.ctor_table(rng))
    elif prop == "C14":
        for _ in range(2 * n):
            for kind in gen.ASYNC:
                S.append(gen.preset_ratio_history(rng, kind, 12, T=64))
                S.append(gen.valid_history(rng, kind, 12, allow=("chunk",), T=64))
                S.append(gen.valid_history(rng, kind, 10, allow=(), T=32))
            for kind in gen.FFT:
                S.append(gen.impulse_history(rng, kind))
            for kind in ("SincFixedIn", "SincFixedOut"):
                S.append(gen.impulse_history(rng, kind))
    return S


def twins_sig(n, rng):
    from . import twins
    return twins.sig(n, rng)


def noop_twin_scripts(prop, tier, rng):
    """C12/C13: an instance that also receives rejected calls vs a twin that never saw them
    (TraceTwin.TwinFull: identical results, counts, getters and bit-identical outputs)."""
    S = []
    n = {"quick": 8, "thorough": 100}[tier]
    for _ in range(n):
        for kind in gen.KINDS:
            h = gen.valid_history(rng, kind, rng.randrange(6, 20), small=rng.random() < 0.4,
                                  allow=("ratio", "ramp", "chunk", "reset"))
            b = h[0]
            if kind in ("FastFixedIn", "SincFixedIn"):
                b["maxrel"] = {"p": 11, "q": 10}
            if b.get("F") == 1:
                b["F"] = 2
            twins_sig(b, rng)
            b.pop("probe", None)
            ops = [dict(b, id=0), dict(b, id=1), {"op": "note", "twin": "full", "a": 0, "b": 1}]
            for o in h[1:]:
                if rng.random() < 0.5:
                    if prop == "C12":
                        if rng.random() < 0.6:
                            ops.append({"op": "set_ratio", "id": 0, "rel": rng.random() < 0.5, "ramp": rng.random() < 0.5,
                                        "x": {"cls": rng.choice(["above", "below", "nan", "inf", "ninf", "zero", "neg",
                                                                 "hi_succ", "lo_pred", "sub"])}})
                        else:
                            ops.append({"op": "set_chunk", "id": 0, "n": rng.choice([0, -1, b["chunk"] + 1, 10 ** 6])})
                    else:
                        bad = {"op": "bad", "id": 0, "via": rng.choice(["into", "slices", "vec_into", "alloc"])}
                        # only shapes that are malformed whatever the current sizes are: a buffer cannot be
                        # "too short" when 0 frames are due, and such a call would be an extra valid call
                        always = [x for x in gen.BAD_SHAPES if not ("short_in" in x or "short_out" in x)]
                        if kind in ("FastFixedIn", "SincFixedIn", "FftFixedIn", "FftFixedInOut"):
                            always += [{"short_in": [0, 1]}, {"short_in": [0, -1]}]
                        if kind in ("FastFixedOut", "SincFixedOut", "FftFixedOut", "FftFixedInOut"):
                            always += [{"short_out": [0, 1]}, {"short_out": [0, -1]}]
                        sh = dict(rng.choice(always))
                        for k in ("short_in", "short_out"):
                            if k in sh:
                                sh[k] = [rng.randrange(b["ch"]), sh[k][1]]
                        if b["ch"] > 1 and "mask_len" not in sh and rng.random() < 0.5:
                            m = [rng.random() < 0.5 for _ in range(b["ch"])]
                            for k in ("short_in", "short_out"):
                                if k in sh:
                                    m[sh[k][0]] = True
                            bad["mask"] = m
                        if bad["via"] == "alloc":
                            sh.pop("short_out", None)
                            sh.pop("out_ch", None)
                            if not sh:
                                sh = {"in_ch": 1}
                        bad.update(sh)
                        ops.append(bad)
                ops.append(dict(o, id=0))
                ops.append(dict(o, id=1))
            S.append(ops)
    return S


def delay_twin_scripts(tier, rng):
    """C14: the reported delay follows the ratio in force, however it was reached: instance 0 changes its ratio
    with ramps, instance 1 without; TraceTwin.TwinDelay compares output_delay() after every processing call."""
    S = []
    for _ in range({"quick": 30, "thorough": 300}[tier]):
        for kind in gen.ASYNC:
            n = gen.new_op(rng, kind, small=rng.random() < 0.3)
            n["maxrel"] = gen.rj(Fraction(4))
            n["r"] = gen.rj(rng.choice([Fraction(1), Fraction(2), Fraction(4), Fraction(1, 2), Fraction(3, 2), Fraction(8)]))
            n["signal"] = "noise"
            n.pop("probe", None)
            ops = [dict(n, id=0), dict(n, id=1), {"op": "note", "twin": "delay", "a": 0, "b": 1}]
            orig = gen.frac_of(n["r"])
            for _c in range(rng.randrange(2, 6)):
                x = orig * rng.choice([Fraction(1, 4), Fraction(1, 2), Fraction(1), Fraction(2), Fraction(4), Fraction(3, 4)])
                ops.append({"op": "set_ratio", "id": 0, "x": gen.rj(x), "ramp": True, "rel": False})
                ops.append({"op": "set_ratio", "id": 1, "x": gen.rj(x), "ramp": False, "rel": False})
                for _p in range(rng.randrange(1, 4)):
                    ops.append({"op": "process", "id": 0})
                    ops.append({"op": "process", "id": 1})
                if rng.random() < 0.2:
                    ops += [{"op": "reset", "id": 0}, {"op": "reset", "id": 1}]
            S.append(ops)
    return S


def rel_abs_twin_scripts(tier, rng):
    """C12: set_resample_ratio_relative(x) behaves as set_resample_ratio(original*x): instance A is
    driven with relative values, twin B with the absolute ones (TwinCtl: results, counts, getters)."""
    from fractions import Fraction
    S = []
    n = {"quick": 10, "thorough": 120}[tier]
    for _ in range(n):
        for kind in gen.ASYNC:
            b = gen.new_op(rng, kind, small=rng.random() < 0.3)
            # dyadic values only: original*x is then the same double whoever computes it
            b["r"] = gen.rj(rng.choice([Fraction(1), Fraction(2), Fraction(1, 2), Fraction(4), Fraction(1, 4),
                                        Fraction(3, 2), Fraction(3, 4), Fraction(5, 4)]))
            orig = gen.frac_of(b["r"])
            maxrel = gen.frac_of(b["maxrel"])
            if kind in ("FastFixedIn", "SincFixedIn") and maxrel > 2:
                b["maxrel"] = {"p": 2, "q": 1}
                maxrel = Fraction(2)
            if b.get("F") == 1:
                b["F"] = 2
            twins_sig(b, rng)
            b.pop("probe", None)
            rels = [x for x in gen.in_range_rels(maxrel) if x.denominator & (x.denominator - 1) == 0]
            b["chunk"] = min(b["chunk"], 256)
            ops = [dict(b, id=0), dict(b, id=1), {"op": "note", "twin": "ctl", "a": 0, "b": 1}]
            for _k in range(rng.randrange(6, 16)):
                if rng.random() < 0.5:
                    x = rng.choice(rels)
                    ramp = rng.random() < 0.4
                    ops.append({"op": "set_ratio", "id": 0, "x": gen.rj(x), "ramp": ramp, "rel": True})
                    ops.append({"op": "set_ratio", "id": 1, "x": gen.rj(orig * x), "ramp": ramp, "rel": False})
                else:
                    ops += [{"op": "process", "id": 0}, {"op": "process", "id": 1}]
            S.append(ops)
    return S


def adapt_model_script(prop, ops, rng):
    """Property-specific decoration of a TLC-generated script (same calls, other observers)."""
    ops = [dict(o) for o in ops]
    if prop == "C09":
        for o in ops:
            if o["op"] == "process":
                o["via"] = rng.choice(["into", "slices", "vec_into"])
    if prop in ("C03", "C04"):
        for o in ops:
            if o["op"] == "process":
                o["via"] = rng.choice(["into", "into", "slices", "alloc", "vec_into", "vec_alloc"])
                o["out"] = rng.choice(["next", "next", "max"])
        ops[0]["T"] = rng.choice([64, 32])
    return ops


# ------------------------------------------------------------------------------------------------

def check(prop, tier, seed, replay=None):
    t0 = time.time()
    rng = random.Random(seed)
    known = load_known()
    wd = run.workdir(prop)
    preds = PREDICATES[prop]
    lines = []          # VIOLATION / KNOWN-FINDING / MODEL-DRIFT lines to print
    cov = {"states": 0, "transitions": 0, "traces_validated_against_impl": 0, "samples": [],
           "model_runs": [], "model_drift": [], "known_findings_met": [], "scripts": {}}
    run.build_harness()

    if replay:
        ok, out = run.replay_hard(replay, preds, wd)
        if ok and any('"twin"' in l for l in open(replay)):
            ok, out = run.replay_hard(replay, ["TwinDelay"] if prop == "C14" else ["TwinFull", "TwinCtl"], wd,
                                      module="TraceTwin")
        print(out[-3000:] if not ok else "replay: all predicates hold on " + replay)
        if not ok:
            print("VIOLATION property=%s replay=%s" % (prop, replay))
        return 0 if ok else 1

    phase = {}
    tph = time.time()
    # ---- 1. exhaustive exploration of the as-is models
    model_scripts = []   # (name, ops, exp, q)
    for module, tag, params, conv, q in model_configs(prop, tier):
        res = model.check_model(module, cfg_text(module, params, False), wd, "%s-%s" % (prop, tag),
                                workers=8 if tier == "quick" else 14, timeout=3000, coverage=False)
        cov["states"] += res["distinct"]
        cov["transitions"] += res["generated"]
        cov["model_runs"].append({"module": module, "config": tag, "distinct": res["distinct"],
                                  "generated": res["generated"], "ok": res["ok"],
                                  "constants": {k: v for k, v in params.items() if k != "invariants"},
                                  "invariants": params["invariants"]})
        if not res["ok"]:
            raise run.ToolError("model %s/%s violates %s on its own: %s" % (module, tag, params["invariants"], res["error"]))
        # behaviours for replay
        reps = emit_behaviours(module, tag, params, tier, seed, wd, prop, rng)
        for k, h in enumerate(reps):
            ops, exp = conv(h)
            model_scripts.append(("m-%s-%05d" % (tag, k), adapt_model_script(prop, ops, rng), exp, q))
    cov["scripts"]["model_behaviours"] = len(model_scripts)

    # ---- 1b. refinement: the as-is models implement the generative contract (Abstract.tla)
    if prop in ("C04", "C07"):
        for module, tag, params, conv, q in model_configs(prop, tier):
            rmod = "AsyncRefines" if module == "AsyncPos" else "FftRefines"
            p2 = dict(params)
            p2["invariants"] = ["A_Advertised"] + (["A_DriftBound"] if module == "AsyncPos" else [])
            txt = cfg_text(module, p2, False) + "PROPERTY Refines\n"
            res = model.check_model(rmod, txt, wd, "%s-%s-refines" % (prop, tag),
                                    workers=8 if tier == "quick" else 14, timeout=3000)
            if not res["ok"]:
                raise run.ToolError("refinement %s/%s fails on its own: %s" % (rmod, tag, res["error"]))
            cov["states"] += res["distinct"]
            cov["transitions"] += res["generated"]
            cov["model_runs"].append({"module": rmod, "config": tag, "distinct": res["distinct"],
                                      "generated": res["generated"], "ok": True,
                                      "property": "Refines (model implements Abstract.tla)",
                                      "invariants": p2["invariants"]})

    # ---- 1c. the FFT integer machine for ARBITRARY rates, block counts and chunk sizes: machine-checked
    #          proof (TLAPS) that its invariant is inductive; FftBlocks (above, PROPERTY IndRefines) takes
    #          exactly its transitions
    if prop in ("C03", "C04", "C07"):
        nobl = model.check_proof(wd)
        cov["model_runs"].append({"module": "FftIndProofs", "tool": "tlapm", "obligations_proved": nobl, "ok": True,
                                  "theorems": ["Spec => []IndInv", "Spec => []Safe (C07_Drift, C03_InBuffer, "
                                               "C04_Delivers, C04_OutBound)"],
                                  "scope": "all positive reduced rates A, B, block counts K and chunk sizes"})

    phase["models_s"] = round(time.time() - tph, 1); tph = time.time()
    # ---- 2. seeded scripts at realistic sizes, witnesses of repaired / known defects
    g = gen_scripts(prop, tier, rng)
    gen_named = [("g-%05d" % k, ops) for k, ops in enumerate(g)]
    wit = []
    for w in WITNESSES.get(prop, []):
        p = os.path.join(run.VERIF, "findings", w + ".jsonl")
        if os.path.exists(p):
            wit.append(("w-" + w, [json.loads(l) for l in open(p) if l.strip()]))
    cov["scripts"]["generated"] = len(gen_named)
    cov["scripts"]["witnesses"] = len(wit)

    # the scenarios of the repository's own unit tests, validated with this property's predicates
    repo_named = []
    if prop in ("C03", "C04", "C06", "C07", "C09", "C14"):
        repo_named = [("r-%03d" % k, o) for k, o in enumerate(gen.repo_scenarios())]
        if prop in ("C03", "C04"):
            repo_named += [("rn-%03d" % k, o) for k, o in enumerate(gen.repo_scenarios("noise"))]
    cov["scripts"]["repository_test_scenarios"] = len(repo_named)
    allscripts = [(n, o) for n, o, _, _ in model_scripts] + gen_named + wit + repo_named
    pairs = run.run_scripts(allscripts, wd)
    bypath = {sp: tp for sp, tp in pairs}

    phase["driver_s"] = round(time.time() - tph, 1); tph = time.time()
    # ---- 3. as-is conformance of the model behaviours (MODEL-DRIFT, never a violation)
    ndrift = 0
    for (name, ops, exp, q), (sp, tp) in zip(model_scripts, pairs[:len(model_scripts)]):
        d = model.compare(exp, run.read_trace(tp), q)
        if d:
            ndrift += 1
            if ndrift <= 5:
                keep = run.save_replay(prop, sp)
                cov["model_drift"].append({"script": keep, "first": d[0]})
                lines.append("MODEL-DRIFT property=%s first=%s field=%s" % (prop, keep, d[0]))
    cov["model_behaviours_conforming"] = len(model_scripts) - ndrift
    if ndrift:
        # the exhaustive result no longer speaks about this tree: widen the contract-level exploration
        extra = gen_scripts(prop, "thorough" if tier == "quick" else tier, random.Random(seed + 1))
        extra = extra[: 1200]
        more = run.run_scripts([("x-%05d" % k, o) for k, o in enumerate(extra)], wd, prefix="x")
        pairs += more
        cov["scripts"]["escalated_after_drift"] = len(more)

    phase["compare_s"] = round(time.time() - tph, 1); tph = time.time()
    # ---- 4. trace validation of every real execution against Contract
    res = run.validate_traces(pairs, preds, wd, tag=prop)
    phase["trace_validation_s"] = round(time.time() - tph, 1); tph = time.time()
    cov["phase_s"] = phase
    cov["states"] += res["states"]
    cov["transitions"] += res["transitions"]
    cov["traces_validated_against_impl"] = res["traces"]
    cov["events_validated"] = res["events"]
    cov["predicate_antecedents"] = res.get("counts", {})
    need = {"C03": ["procOk"], "C04": ["procOk"], "C06": ["withTaus", "ramped"], "C07": ["constRatio"],
            "C09": ["rtSafe"], "C12": ["setOk", "setRej", "chunkOk", "chunkRej"], "C13": ["badFaulty"],
            "C14": ["withTaus", "peak"]}[prop]
    for k in need:
        if res.get("counts", {}).get(k, 0) == 0:
            raise run.ToolError("vacuous validation: no event exercised '%s' for %s" % (k, prop))
    nviol = 0
    seen_known = {}
    seen_viol = set()
    for kind, name, script, line, ev, kfid in res["viols"]:
        if kind == "KNOWN" and kfid in known and prop in known[kfid]["properties"]:
            seen_known.setdefault(kfid, 0)
            seen_known[kfid] += 1
            continue
        key = (script, name)
        if key in seen_viol:
            continue
        seen_viol.add(key)
        nviol += 1
        keep = run.save_replay(prop, script)
        lines.append("VIOLATION property=%s replay=%s predicate=%s line=%d%s" % (
            prop, keep, name, line, (" unlisted-finding=" + kfid) if kind == "KNOWN" else ""))
    for kfid, cnt in sorted(seen_known.items()):
        lines.append("KNOWN-FINDING: property=%s %s (%d events) %s" % (prop, kfid, cnt, known[kfid]["site"]))
        cov["known_findings_met"].append({"id": kfid, "events": cnt})

    # ---- 4a. C13: every call shape Shapes.tla enumerates (validate_buffers case table)
    if prop == "C13":
        from . import shapes
        for nch in ([1, 2] if tier == "quick" else [1, 2, 3]):
            vcases, _ = shapes.cases(nch, wd, prop, cov)
            vs, ve = shapes.validate_scripts(vcases, nch, rng, per_script=60,
                                             nscripts={"quick": 40, "thorough": 400}[tier])
            vpairs = run.run_scripts([("v%d-%05d" % (nch, k), o) for k, o in enumerate(vs)], wd, prefix="v%d" % nch)
            vres = run.validate_traces(vpairs, preds, wd, tag=prop + "v%d" % nch)
            cov["states"] += vres["states"]
            cov["transitions"] += vres["transitions"]
            cov["traces_validated_against_impl"] += vres["traces"]
            cov["scripts"]["shape_cases_nch%d" % nch] = sum(len(x) for x in ve)
            nd = 0
            for (sp, tp_), ex in zip(vpairs, ve):
                d = shapes.compare_validate(ex, run.read_trace(tp_))
                if d:
                    nd += 1
                    if nd <= 3:
                        keep = run.save_replay(prop, sp)
                        lines.append("MODEL-DRIFT property=%s first=%s field=%s" % (prop, keep, d[0]))
            ndrift += nd
            vseen = set()
            for kind, name, script, line, ev, kfid in vres["viols"]:
                if kind == "KNOWN" and kfid in known and prop in known[kfid]["properties"]:
                    continue
                if (script, name) in vseen:
                    continue
                vseen.add((script, name))
                nviol += 1
                keep = run.save_replay(prop, script)
                lines.append("VIOLATION property=%s replay=%s predicate=%s line=%d" % (prop, keep, name, line))

    # ---- 4b. C12/C13: "a rejected call changes nothing": twin that never saw the rejected calls
    if prop in ("C12", "C13", "C14"):
        if prop == "C14":
            tw = delay_twin_scripts(tier, rng)
        else:
            tw = noop_twin_scripts(prop, tier, rng)
        if prop == "C12":
            tw += rel_abs_twin_scripts(tier, rng)
        tpairs = run.run_scripts([("t-%05d" % k, o) for k, o in enumerate(tw)], wd, prefix="t")
        tres = run.validate_traces(tpairs, ["TwinDelay"] if prop == "C14" else ["TwinFull", "TwinCtl"], wd,
                                   module="TraceTwin", tag=prop + "t")
        run.pair_stats(tres, cov, prop)
        cov["states"] += tres["states"]
        cov["transitions"] += tres["transitions"]
        cov["traces_validated_against_impl"] += tres["traces"]
        cov["scripts"]["noop_twins"] = len(tw)
        tseen = set()
        for kind, name, script, line, ev, kfid in tres["viols"]:
            if (script, name) in tseen:
                continue
            tseen.add((script, name))
            nviol += 1
            keep = run.save_replay(prop, script)
            lines.append("VIOLATION property=%s replay=%s predicate=%s line=%d" % (prop, keep, name, line))

    # ---- samples
    for sp, tp in (pairs[:1] + pairs[len(model_scripts):len(model_scripts) + 2]):
        evs = run.read_trace(tp)
        cov["samples"].append({"script": [json.loads(l) for l in open(sp)][:6],
                               "events": [{k: e.get(k) for k in ("ev", "res", "nin", "nout", "pre", "post", "variant", "heap")
                                           if k in e} for e in evs[1:5]]})
    cov["predicates"] = preds
    cov["rule"] = ("states/transitions: TLC exhaustive runs of the as-is models plus TLC trace validation; "
                   "traces: one per real execution of a script (TLC-generated behaviour, seeded script, witness)")
    wall = time.time() - t0
    run.write_evidence(prop, tier, seed, "model_checking", cov, wall, nviol,
                       ["TLC explores the as-is models over small constants only (listed under model_runs)",
                        "instants are observed through the index signal / LinearProbe with 2^-20 resolution",
                        "harness built with debug-assertions and overflow-checks: UB that neither aborts nor changes an observable is not seen"])
    for l in lines:
        print(l)
    print("%s %s: %d traces, %d events, %d model states, %d violations, %d drifts, %.1fs" % (
        prop, tier, res["traces"], res["events"], cov["states"], nviol, ndrift, wall))
    import shutil
    shutil.rmtree(wd, ignore_errors=True)
    return 1 if nviol else 0
