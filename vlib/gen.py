"""Seeded generators of operation scripts at realistic sizes (the 'gen' source of scripts).

A script is a list of dict ops (see harness/src/exec.rs).  Everything random is drawn from a
random.Random(seed) so that VERIF_SEED reproduces a run.
"""
import random, struct
from fractions import Fraction

ASYNC = ["FastFixedIn", "FastFixedOut", "SincFixedIn", "SincFixedOut"]
FFT = ["FftFixedIn", "FftFixedOut", "FftFixedInOut"]
KINDS = ASYNC + FFT
DEGREES = ["Septic", "Quintic", "Cubic", "Linear", "Nearest"]
INTERPS = ["Cubic", "Quadratic", "Linear", "Nearest"]
WINDOWS = ["Blackman", "Blackman2", "BlackmanHarris", "BlackmanHarris2", "Hann", "Hann2"]
RATES = [8000, 11025, 16000, 22050, 32000, 44100, 48000, 88200, 96000, 192000]

RATIOS = [Fraction(a, b) for a, b in
          [(1, 1), (1, 2), (2, 1), (1, 4), (4, 1), (3, 2), (2, 3), (160, 147), (147, 160), (1, 3),
           (3, 1), (5, 4), (4, 5), (1, 8), (8, 1), (1, 16), (16, 1), (441, 480), (320, 147),
           (7, 5), (10, 11), (99, 100), (101, 100), (13, 3), (3, 13)]]
MAXRELS = [Fraction(1), Fraction(11, 10), Fraction(2), Fraction(4), Fraction(10), Fraction(16),
           Fraction(3, 2), Fraction(101, 100)]
RELS = [Fraction(a, b) for a, b in
        [(1, 1), (1, 2), (2, 1), (3, 4), (4, 3), (9, 10), (10, 9), (99, 100), (100, 99), (1, 4), (4, 1),
         (1, 10), (10, 1), (1, 16), (16, 1), (2, 3), (3, 2), (999, 1000), (1000, 999), (5, 8), (8, 5)]]


def bits(x):
    return "%016x" % struct.unpack(">Q", struct.pack(">d", float(x)))[0]


def rj(fr):
    """ratio json: small fractions as p/q (exact), anything else as f64 bits"""
    fr = Fraction(fr)
    if fr.numerator < 1024 and fr.denominator < 1024:
        return {"p": fr.numerator, "q": fr.denominator}
    return {"bits": bits(fr.numerator / fr.denominator)}


def new_op(rng, kind, idn=0, small=False, **over):
    op = {"op": "new", "id": idn, "kind": kind, "T": rng.choice([64, 64, 32]),
          "ch": rng.choice([1, 1, 2, 3, 4]), "seed": rng.randrange(1 << 30)}
    if kind in ASYNC:
        r = rng.choice(RATIOS)
        op["r"] = rj(r)
        op["maxrel"] = rj(rng.choice(MAXRELS))
        if kind.startswith("Fast"):
            op["degree"] = rng.choice(DEGREES)
            op["chunk"] = rng.choice([1, 2, 3, 5, 8, 13, 32, 64, 100, 256, 1024] if not small else [1, 2, 3, 4, 8, 16])
        else:
            op["L"] = rng.choice([8, 16, 32, 64, 128, 256] if not small else [8, 16])
            op["interp"] = rng.choice(INTERPS)
            op["F"] = rng.choice([2, 4, 16, 128, 256] + ([1] if op["interp"] in ("Linear", "Nearest") else []))
            op["chunk"] = rng.choice([1, 3, 8, 32, 64, 100, 256, 512, 1024] if not small else [1, 2, 4, 8, 16])
            op["window"] = rng.choice(WINDOWS)
        op["signal"] = "index"
        if kind.startswith("Sinc"):
            op["probe"] = "linear"
        # keep chunk/r bounded (streams must stay < 2^20 frames, scripts cheap)
        while op["chunk"] / float(Fraction(r)) > 20000 or op["chunk"] * float(Fraction(r)) > 20000:
            op["chunk"] = max(1, op["chunk"] // 2)
    else:
        a, b = rng.choice(RATES), rng.choice(RATES)
        if rng.random() < 0.4:
            a, b = rng.randrange(1, 13), rng.randrange(1, 13)
        op["fs_in"], op["fs_out"] = a, b
        op["chunk"] = rng.choice([1, 2, 7, 16, 64, 100, 256, 480, 1024, 2048] if not small else [1, 2, 3, 5, 8, 12])
        op["sub"] = rng.choice([1, 1, 2, 3, 4])
        if op["sub"] > op["chunk"]:
            op["sub"] = 1
        op["signal"] = "noise"
        # FFT sizes are multiples of fs/gcd: keep them affordable
        from math import gcd
        g = gcd(a, b)
        while max(a, b) // g > 2000:
            a, b = rng.choice(RATES), rng.choice(RATES)
            g = gcd(a, b)
        op["fs_in"], op["fs_out"] = a, b
    op.update(over)
    return op


def in_range_rels(maxrel):
    return [x for x in RELS if Fraction(1) / maxrel <= x <= maxrel]


def frac_of(j):
    if "bits" in j:
        return Fraction(struct.unpack(">d", struct.pack(">Q", int(j["bits"], 16)))[0])
    return Fraction(j["p"], j["q"])


def valid_history(rng, kind, ncalls=30, small=False, allow=("ratio", "ramp", "chunk", "reset", "via", "partial"),
                  **over):
    """A history of documented operations with well-formed arguments."""
    n = new_op(rng, kind, small=small, **over)
    ops = [n]
    mask = None
    if n["ch"] > 1 and rng.random() < 0.3:
        mask = [rng.random() < 0.7 for _ in range(n["ch"])]
    maxrel = frac_of(n["maxrel"]) if kind in ASYNC else Fraction(1)
    orig = frac_of(n["r"]) if kind in ASYNC else Fraction(1)
    rels = in_range_rels(maxrel)
    for _ in range(ncalls):
        u = rng.random()
        if kind in ASYNC and "ratio" in allow and u < 0.25:
            rel = rng.choice(rels)
            ramp = "ramp" in allow and rng.random() < 0.5
            if rng.random() < 0.5:
                ops.append({"op": "set_ratio", "id": 0, "x": rj(orig * rel), "ramp": ramp, "rel": False})
            else:
                ops.append({"op": "set_ratio", "id": 0, "x": rj(rel), "ramp": ramp, "rel": True})
        elif kind.startswith("Sinc") and "chunk" in allow and u < 0.35:
            ops.append({"op": "set_chunk", "id": 0, "n": rng.randrange(1, n["chunk"] + 1)})
        elif "reset" in allow and u < 0.39:
            ops.append({"op": "reset", "id": 0})
        elif u < 0.42:
            ops.append({"op": "getters", "id": 0})
        else:
            p = {"op": "process", "id": 0}
            if "via" in allow:
                p["via"] = rng.choice(["into", "into", "slices", "vec_into", "alloc", "vec_alloc"])
                p["out"] = rng.choice(["next", "next", "max"])
                if rng.random() < 0.2:
                    p["in_extra"] = rng.randrange(1, 5)
                if rng.random() < 0.2:
                    p["out_extra"] = rng.randrange(1, 5)
            if mask is not None:
                p["mask"] = mask
                if not any(mask) and p.get("via") in ("alloc", "vec_alloc"):
                    p["via"] = "into"   # the written count is not observable through process() then
                if rng.random() < 0.5 and p.get("via", "into") in ("into", "slices", "vec_into"):
                    p["empty_masked"] = True
            ops.append(p)
    if "partial" in allow and rng.random() < 0.5:
        for _ in range(rng.randrange(1, 4)):
            p = {"op": "partial", "id": 0, "k": rng.choice([-1, -1, 1, 2, 3])}
            p["via"] = rng.choice(["into", "alloc", "vec_into", "vec_alloc"])
            if mask is not None:
                p["mask"] = mask
                if not any(mask):
                    p["via"] = "into"
            ops.append(p)
    return ops


BAD_SHAPES = [
    {"in_ch": -1}, {"in_ch": 1}, {"out_ch": -1}, {"out_ch": 1}, {"mask_len": -1}, {"mask_len": 1},
    {"in_ch": -100}, {"out_ch": -100}, {"mask_len": -100},
    {"short_in": [0, 1]}, {"short_in": [0, -1]}, {"short_out": [0, 1]}, {"short_out": [0, -1]},
    {"short_in": [0, 1], "short_out": [0, 1]}, {"in_ch": 1, "out_ch": -1},
]


def bad_history(rng, kind, ncalls=20, small=False, **over):
    ops = valid_history(rng, kind, ncalls, small, allow=("ratio", "ramp", "chunk", "reset"), **over)
    out = [ops[0]]
    ch = ops[0]["ch"]
    for op in ops[1:]:
        out.append(op)
        if rng.random() < 0.35:
            s = dict(rng.choice(BAD_SHAPES))
            c = rng.randrange(ch)
            for k in ("short_in", "short_out"):
                if k in s:
                    s[k] = [c, s[k][1] if rng.random() < 0.5 else rng.choice([1, 2, -1])]
            b = {"op": "bad", "id": 0, "via": rng.choice(["into", "slices", "vec_into"])}
            b.update(s)
            out.append(b)
    return out
