"""Seeded generators of operation scripts at realistic sizes (the 'gen' source of scripts).

A script is a list of dict ops (see harness/src/exec.rs).  Everything random is drawn from a
random.Random(seed) so that VERIF_SEED reproduces a run.
"""
import random, struct
from fractions import Fraction

ASYNC = ["FastFixedIn", "FastFixedOut", "SincFixedIn", "SincFixedOut"]
FFT = ["FftFixedIn", "FftFixedOut", "FftFixedInOut"]
KINDS = ASYNC + FFT
DEGREES = ["Septic", "Quintic", "Cubic", "Linear", "Nearest"]
INTERPS = ["Cubic", "Quadratic", "Linear", "Nearest"]
WINDOWS = ["Blackman", "Blackman2", "BlackmanHarris", "BlackmanHarris2", "Hann", "Hann2"]
RATES = [8000, 11025, 16000, 22050, 32000, 44100, 48000, 88200, 96000, 192000]

RATIOS = [Fraction(a, b) for a, b in
          [(1, 1), (1, 2), (2, 1), (1, 4), (4, 1), (3, 2), (2, 3), (160, 147), (147, 160), (1, 3),
           (3, 1), (5, 4), (4, 5), (1, 8), (8, 1), (1, 16), (16, 1), (441, 480), (320, 147),
           (7, 5), (10, 11), (99, 100), (101, 100), (13, 3), (3, 13)]]
MAXRELS = [Fraction(1), Fraction(11, 10), Fraction(2), Fraction(4), Fraction(10), Fraction(16),
           Fraction(3, 2), Fraction(101, 100)]
RELS = [Fraction(a, b) for a, b in
        [(1, 1), (1, 2), (2, 1), (3, 4), (4, 3), (9, 10), (10, 9), (99, 100), (100, 99), (1, 4), (4, 1),
         (1, 10), (10, 1), (1, 16), (16, 1), (2, 3), (3, 2), (999, 1000), (1000, 999), (5, 8), (8, 5)]]


def bits(x):
    return "%016x" % struct.unpack(">Q", struct.pack(">d", float(x)))[0]


def rj(fr):
    """ratio json: small fractions as p/q (exact), anything else as f64 bits"""
    fr = Fraction(fr)
    if fr.numerator < 1024 and fr.denominator < 1024:
        return {"p": fr.numerator, "q": fr.denominator}
    return {"bits": bits(fr.numerator / fr.denominator)}


def new_op(rng, kind, idn=0, small=False, **over):
    op = {"op": "new", "id": idn, "kind": kind, "T": rng.choice([64, 64, 32]),
          "ch": rng.choice([1, 1, 2, 3, 4] if rng.random() < 0.95 else [8, 9, 17]), "seed": rng.randrange(1 << 30)}
    if kind in ASYNC:
        r = rng.choice(RATIOS)
        op["r"] = rj(r)
        op["maxrel"] = rj(rng.choice(MAXRELS))
        if kind.startswith("Fast"):
            op["degree"] = rng.choice(DEGREES)
            op["chunk"] = rng.choice([1, 2, 3, 5, 8, 13, 32, 64, 100, 256, 1024, 4096] if not small else [1, 2, 3, 4, 8, 16])
        else:
            # requested lengths that are not multiples of 8 are rounded up by the library
            op["L"] = rng.choice([8, 16, 32, 64, 128, 256, 24, 10, 20, 44, 100, 512] if not small else [8, 16, 12])
            op["interp"] = rng.choice(INTERPS)
            op["F"] = rng.choice([2, 4, 16, 128, 256, 3, 100, 160] + ([1] if op["interp"] in ("Linear", "Nearest") else []))
            op["chunk"] = rng.choice([1, 3, 8, 32, 64, 100, 256, 512, 1024, 4096] if not small else [1, 2, 4, 8, 16])
            op["window"] = rng.choice(WINDOWS)
        op["signal"] = "index"
        if kind.startswith("Sinc"):
            op["probe"] = "linear"
            if rng.random() < 0.12:
                # a caller-supplied interpolator may have ANY length (odd, not a multiple of 8)
                op["L"] = rng.choice([9, 15, 33, 7, 21, 12, 30])
                op["Lraw"] = True
        # keep chunk/r bounded (streams must stay < 2^20 frames, scripts cheap)
        while op["chunk"] / float(Fraction(r)) > 20000 or op["chunk"] * float(Fraction(r)) > 20000:
            op["chunk"] = max(1, op["chunk"] // 2)
    else:
        a, b = rng.choice(RATES), rng.choice(RATES)
        u = rng.random()
        if u < 0.35:
            a, b = rng.randrange(1, 13), rng.randrange(1, 13)
        elif u < 0.6:
            # block lengths with large prime factors / awkward factorisations (the FFT planner picks other
            # algorithms with other scratch needs for them)
            odd = [83, 84, 97, 101, 127, 167, 214, 251, 257, 499, 997, 1000, 1009, 44056, 44110, 47999]
            a, b = rng.choice(odd), rng.choice(odd + RATES)
            if rng.random() < 0.5:
                a, b = b, a
        op["fs_in"], op["fs_out"] = a, b
        op["chunk"] = rng.choice([1, 2, 7, 16, 64, 100, 256, 480, 1024, 2048, 4096, 5000] if not small else [1, 2, 3, 5, 8, 12])
        op["sub"] = rng.choice([1, 1, 2, 3, 4])
        if op["sub"] > op["chunk"]:
            op["sub"] = 1
        op["signal"] = "noise"
        # FFT sizes are multiples of fs/gcd: keep them affordable
        from math import gcd
        g = gcd(a, b)
        while max(a, b) // g > 2000:
            a, b = rng.choice(RATES), rng.choice(RATES)
            g = gcd(a, b)
        op["fs_in"], op["fs_out"] = a, b
        if rng.random() < 0.35:
            # chunk = sub_chunks whole FFT blocks of an arbitrary size (also 3, 5, 6, 7 blocks per chunk)
            unit = (b if kind == "FftFixedOut" else a) // g
            m = rng.choice([1, 2, 3, 5, 8, 16, 40, 80, 160, 240, 320, 480])
            f = unit * max(1, m // unit if unit > 1 and m >= unit else m)
            while f > 1500:
                f //= 2
            f = max(unit, (f // unit) * unit)
            op["sub"] = 1 if kind == "FftFixedInOut" else rng.choice([1, 2, 3, 4, 5, 6, 7, 8])
            # ... or one frame less / more than whole blocks (the parked frames then run through every residue,
            # "one frame short of a block" included)
            op["chunk"] = max(1, f * op["sub"] + rng.choice([0, 0, 0, -1, 1]))
        # TLC's integers are 32 bits: the contract multiplies frame totals by the reduced rates
        # (totOut * fs_in/gcd against totIn * fs_out/gcd); keep 100 calls' worth of frames below 2^30
        g = gcd(op["fs_in"], op["fs_out"])
        ra, rb = op["fs_in"] // g, op["fs_out"] // g
        while 100 * max(op["chunk"], ra, rb) * max(ra, rb) >= (1 << 30) and op["chunk"] > 1:
            op["chunk"] = max(1, op["chunk"] // 2)
            if op["sub"] > op["chunk"]:
                op["sub"] = 1
    op.update(over)
    return op


def in_range_rels(maxrel):
    return [x for x in RELS if Fraction(1) / maxrel <= x <= maxrel]


def frac_of(j):
    if "bits" in j:
        return Fraction(struct.unpack(">d", struct.pack(">Q", int(j["bits"], 16)))[0])
    return Fraction(j["p"], j["q"])


def valid_history(rng, kind, ncalls=30, small=False, allow=("ratio", "ramp", "chunk", "reset", "via", "partial"),
                  varymask=False, **over):
    """A history of documented operations with well-formed arguments.

    varymask: the active-channel mask changes from call to call (only meaningful for signals that are
    not used as an instant probe: a channel that was inactive has a hole in its history)."""
    n = new_op(rng, kind, small=small, **over)
    ops = [n]
    mask = None
    if n["ch"] > 1 and rng.random() < 0.3:
        mask = [rng.random() < 0.7 for _ in range(n["ch"])]
    if varymask and n["ch"] > 1 and n.get("signal") != "index":
        mask = "vary"
    maxrel = frac_of(n["maxrel"]) if kind in ASYNC else Fraction(1)
    orig = frac_of(n["r"]) if kind in ASYNC else Fraction(1)
    rels = in_range_rels(maxrel)
    for _ in range(ncalls):
        u = rng.random()
        if kind in ASYNC and "ratio" in allow and u < 0.25:
            rel = rng.choice(rels)
            ramp = "ramp" in allow and rng.random() < 0.5
            if rng.random() < 0.5:
                ops.append({"op": "set_ratio", "id": 0, "x": rj(orig * rel), "ramp": ramp, "rel": False})
            else:
                ops.append({"op": "set_ratio", "id": 0, "x": rj(rel), "ramp": ramp, "rel": True})
        elif kind.startswith("Sinc") and "chunk" in allow and u < 0.35:
            ops.append({"op": "set_chunk", "id": 0, "n": rng.randrange(1, n["chunk"] + 1)})
        elif "reset" in allow and u < 0.39:
            ops.append({"op": "reset", "id": 0})
        elif u < 0.42:
            ops.append({"op": "getters", "id": 0})
        else:
            p = {"op": "process", "id": 0}
            if "via" in allow:
                p["via"] = rng.choice(["into", "into", "slices", "vec_into", "alloc", "vec_alloc"])
                p["out"] = rng.choice(["next", "next", "max"])
                # buffers longer than required: by a few frames, or by a lot (whole further chunks)
                if rng.random() < 0.2:
                    p["in_extra"] = rng.choice([1, 2, 3, 4, 64, 1000])
                if rng.random() < 0.2:
                    p["out_extra"] = rng.choice([1, 2, 3, 4, 64, 1000])
                if rng.random() < 0.15:
                    p["out_fill"] = "garbage"      # a reused output buffer that still holds old frames
                if n["ch"] > 1 and rng.random() < 0.15:
                    # channels of different lengths, each at least as long as required
                    p["in_extra_pc"] = [rng.choice([0, 0, 1, 5, 100, 1000]) for _ in range(n["ch"])]
                    p["out_extra_pc"] = [rng.choice([0, 0, 1, 5, 100, 1000]) for _ in range(n["ch"])]
            if mask == "vary":
                p["mask"] = [rng.random() < 0.6 for _ in range(n["ch"])]
                if not any(p["mask"]) and p.get("via") in ("alloc", "vec_alloc"):
                    p["via"] = "into"
                if rng.random() < 0.5 and p.get("via", "into") in ("into", "slices", "vec_into"):
                    p["empty_masked"] = True
                elif rng.random() < 0.3 and p.get("via", "into") in ("into", "slices", "vec_into"):
                    p["masked_len"] = rng.choice([1, 2, 17, 100])     # skipped channels: short, non-empty buffers
            elif mask is not None:
                p["mask"] = mask
                if not any(mask) and p.get("via") in ("alloc", "vec_alloc"):
                    p["via"] = "into"   # the written count is not observable through process() then
                if rng.random() < 0.5 and p.get("via", "into") in ("into", "slices", "vec_into"):
                    p["empty_masked"] = True
                elif rng.random() < 0.3 and p.get("via", "into") in ("into", "slices", "vec_into"):
                    p["masked_len"] = rng.choice([1, 2, 17, 100])
            ops.append(p)
    if "partial" in allow and rng.random() < 0.5:
        for _ in range(rng.randrange(1, 4)):
            p = {"op": "partial", "id": 0, "k": rng.choice([-1, -1, 1, 2, 3])}
            p["via"] = rng.choice(["into", "alloc", "vec_into", "vec_alloc"])
            if mask == "vary":
                p["mask"] = [rng.random() < 0.6 for _ in range(n["ch"])]
                if not any(p["mask"]):
                    p["via"] = "into"
            elif mask is not None:
                p["mask"] = mask
                if not any(mask):
                    p["via"] = "into"
            ops.append(p)
    return ops


def superseded_history(rng, kind):
    """Requests that supersede a pending request: two or three setter calls in a row (ramped and immediate,
    ratio and chunk size) with no processing call in between, at many phases of the stream and at strongly
    down- and up-sampling ratios (state derived from a request that never ran - seeded changes C06i, C03h)."""
    over = {"maxrel": rj(rng.choice([Fraction(4), Fraction(8), Fraction(2)])),
            "r": rj(rng.choice([Fraction(1, 4), Fraction(1, 2), Fraction(1), Fraction(2), Fraction(1, 3), Fraction(3, 4)])),
            "ch": 1}
    if kind.startswith("Sinc"):
        over.update({"L": rng.choice([8, 16, 64]), "F": rng.choice([2, 16, 128, 100])})
    n = new_op(rng, kind, **over)
    if kind.endswith("In"):
        n["chunk"] = rng.choice([7, 33, 64, 100, 257, 777, 1024])
    elif kind.startswith("Sinc"):
        n["chunk"] = rng.choice([16, 64, 256, 1024])
    ops = [n]
    orig, maxrel = frac_of(n["r"]), frac_of(n["maxrel"])
    rels = [x for x in in_range_rels(maxrel)]
    for _ in range(rng.randrange(3, 8)):
        for _p in range(rng.randrange(0, 4)):
            ops.append({"op": "process", "id": 0})
        if kind.startswith("Sinc") and rng.random() < 0.4:
            # a ramp that spans a large swing of the chunk size: shrink, process, request the ramp, grow back
            # (or the mirror image), then process
            c = n["chunk"]
            small = rng.choice([1, min(7, c), max(1, c // 16)])
            x = orig * rng.choice([r for r in rels if r >= Fraction(3, 2)] or [maxrel]) if rng.random() < 0.6 \
                else orig * rng.choice([r for r in rels if r <= Fraction(2, 3)] or [1 / maxrel])
            first, second = (small, c) if rng.random() < 0.6 else (c, small)
            ops += [{"op": "set_chunk", "id": 0, "n": first}, {"op": "process", "id": 0},
                    {"op": "set_ratio", "id": 0, "x": rj(x), "ramp": True, "rel": False},
                    {"op": "set_chunk", "id": 0, "n": second}, {"op": "process", "id": 0, "out": "max"},
                    {"op": "process", "id": 0},
                    {"op": "set_ratio", "id": 0, "x": rj(orig), "ramp": False, "rel": False}, {"op": "process", "id": 0}]
            continue
        for _s in range(rng.randrange(2, 4)):
            if kind.startswith("Sinc") and rng.random() < 0.35:
                # large swings of the chunk size (shrink to a few frames, grow back to the maximum), so that a
                # pending ramp spans calls of very different sizes (seeded change C04j)
                c = n["chunk"]
                ops.append({"op": "set_chunk", "id": 0,
                            "n": rng.choice([1, min(7, c), max(1, c // 16), max(1, c // 2), c, c, rng.randrange(1, c + 1)])})
            else:
                x = orig * rng.choice(rels)
                if rng.random() < 0.3:
                    x = orig * maxrel if rng.random() < 0.5 else orig / maxrel
                ops.append({"op": "set_ratio", "id": 0, "x": rj(x), "ramp": rng.random() < 0.7, "rel": False})
        for _p in range(rng.randrange(1, 3)):
            ops.append({"op": "process", "id": 0})
    return ops


def extreme_bound_history(rng, kind):
    """The advertised maxima are computed for the lowest / highest settable ratio. Run the FIRST chunk after
    construction and after reset at exactly that bound (original / max resp. original * max as the caller's f64
    arithmetic gives it), with a chunk size for which chunk / ratio (fixed output) resp. chunk * ratio (fixed
    input) is a whole number in exact arithmetic: a bound without slack fails there (seeded change C04n)."""
    orig = rng.choice([Fraction(7, 10), Fraction(2, 3), Fraction(441, 480), Fraction(17, 10), Fraction(33, 10),
                       Fraction(1), Fraction(3, 7), Fraction(160, 147), Fraction(1, 2), Fraction(5, 4)])
    mr = rng.choice([Fraction(11, 10), Fraction(13, 10), Fraction(3, 2), Fraction(5, 2), Fraction(3), Fraction(10)])
    out = kind.endswith("Out")
    bound = orig / mr if out else orig * mr               # the ratio with the largest input / output need
    unit = bound.numerator if out else bound.denominator
    k = max(1, rng.randrange(1, max(2, 1024 // unit + 1)))
    chunk = min(4096, unit * k)
    over = {"chunk": chunk, "ch": 1, "r": rj(orig), "maxrel": rj(mr)}
    if kind.startswith("Sinc"):
        over.update({"L": rng.choice([8, 64, 128, 256]), "F": rng.choice([16, 128, 2]),
                     "interp": rng.choice(INTERPS)})
        if over["interp"] in ("Cubic", "Quadratic") and over["F"] == 1:
            over["F"] = 2
    n = new_op(rng, kind, **over)
    n["chunk"] = chunk
    cls = "lo" if out else "hi"
    setb = {"op": "set_ratio", "id": 0, "x": {"cls": cls}, "ramp": False, "rel": False}
    ops = [n, {"op": "alloc", "id": 0}, dict(setb), {"op": "getters", "id": 0}]
    ops += [{"op": "process", "id": 0, "via": rng.choice(["into", "alloc"])} for _ in range(3)]
    ops += [{"op": "reset", "id": 0}, dict(setb), {"op": "process", "id": 0}, {"op": "process", "id": 0}]
    return ops


def awkward_history(rng, kind):
    """Ratios that are not simple fractions (arbitrary doubles) and chunk sizes that are not round numbers, over
    a hundred or more calls: rounding of positions, needed sizes and ramps that is exact for textbook ratios."""
    x = rng.choice([1.000123, 0.7071067811865476, 3.14159, 0.3333333, 1.0594630943592953, 0.9999, 2.0000001,
                    rng.uniform(0.1, 8.0), rng.uniform(0.9, 1.1)])
    over = {"r": {"bits": bits(x)}, "maxrel": rj(rng.choice([Fraction(1), Fraction(11, 10), Fraction(2)])), "ch": 1,
            "chunk": rng.choice([37, 441, 999, 1000, 1023, 63, 129, 17])}
    if kind.startswith("Sinc"):
        over.update({"L": rng.choice([8, 16, 64]), "F": rng.choice([2, 16, 128, 100])})
    if kind.endswith("Out") and over["chunk"] / x > 20000:
        over["chunk"] = 37
    return valid_history(rng, kind, rng.choice([60, 120, 250]), allow=rng.choice([(), ("ratio", "ramp"), ("via",)]), **over)


def long_history(rng, kind):
    """Hundreds of calls at a constant configuration with small chunks: whatever accumulates, wraps or depends
    on a slowly drifting phase / on one residue of a counter (an FFT resampler's parked frames run through every
    residue of the block; an asynchronous resampler's fractional position through its whole cycle)."""
    over = {"ch": 1}
    if kind in ASYNC:
        over["r"] = rj(rng.choice([Fraction(160, 147), Fraction(147, 160), Fraction(3, 7), Fraction(101, 100),
                                   Fraction(99, 100), Fraction(7, 5), Fraction(2, 3), Fraction(13, 3), Fraction(1, 3)]))
        over["maxrel"] = rj(Fraction(2))
        over["chunk"] = rng.choice([1, 2, 3, 5, 8, 13, 32, 50])
        if kind.startswith("Sinc"):
            over.update({"L": rng.choice([8, 16, 32]), "F": rng.choice([2, 16, 100, 128])})
    else:
        a, b = rng.choice([(44100, 48000), (48000, 44100), (147, 160), (3, 2), (2, 3), (5, 7), (97, 101), (160, 147)])
        over.update({"fs_in": a, "fs_out": b, "chunk": rng.choice([1, 7, 50, 100, 146, 148, 200, 333]),
                     "sub": rng.choice([1, 1, 2, 3])})
    return valid_history(rng, kind, rng.choice([200, 400, 700]), allow=(), **over)


def huge_history(rng, kind):
    """chunk sizes beyond 2^16 (size computations that truncate, wrap or lose precision only there);
    few calls, so that the stream stays below 2^20 frames"""
    chunk = rng.choice([65536, 65537, 70000, 131072])
    ncalls = 3 if chunk > 100000 else 5
    if kind in ASYNC:
        r = rng.choice([Fraction(1), Fraction(3, 2), Fraction(2, 3), Fraction(160, 147), Fraction(147, 160)])
        over = {"chunk": chunk, "r": rj(r), "maxrel": rj(rng.choice([Fraction(1), Fraction(11, 10), Fraction(2)])),
                "ch": rng.choice([1, 2])}
        if kind.startswith("Sinc"):
            over.update({"L": rng.choice([8, 16, 64]), "F": rng.choice([2, 16, 128])})
        allow = ("ratio", "ramp", "chunk", "via")
    else:
        a, b = rng.choice([(1, 2), (2, 1), (3, 2), (2, 3), (147, 160), (160, 147), (1, 1), (44100, 48000), (4091, 4000)])
        from math import gcd
        g = gcd(a, b)
        unit = (b if kind == "FftFixedOut" else a) // g
        if rng.random() < 0.6:
            # blocks of more than 10 000 frames, the chunk one frame short of / exactly / one frame beyond a
            # whole block (seeded change C03k: f32 block counts with a rounding guard)
            m = max(1, rng.choice([10500, 12273, 20000, 33000]) // unit)
            chunk = m * unit + rng.choice([-1, -1, 0, 1])
            ncalls = 4
        over = {"chunk": chunk, "fs_in": a, "fs_out": b, "sub": rng.choice([1, 1, 2, 4]), "ch": rng.choice([1, 2])}
        allow = ("via",)
    return valid_history(rng, kind, ncalls, allow=allow, **over)


def integer_product_history(rng, kind):
    """Boundary class of every floor/ceil in the size computations: chunk * ratio (fixed input) resp.
    chunk / ratio (fixed output) is an INTEGER in exact arithmetic although the ratio is not exactly
    representable in binary (7/10 x 170 = 119: the f64 product may come out one ulp low or high), with the
    integer a few frames below or above a power of two (where adding a margin crosses a binade)."""
    from math import gcd
    for _ in range(200):
        q = rng.choice([3, 5, 6, 7, 9, 10, 11, 12, 13, 20, 25, 100, 147])
        pn = rng.choice([x for x in range(1, 4 * q) if gcd(x, q) == 1 and Fraction(1, 4) <= Fraction(x, q) <= 4])
        r = Fraction(pn, q)
        k = rng.randrange(5, 13)
        N = (1 << k) + rng.randrange(-12, 3)
        mult = r.numerator if kind.endswith("In") else r.denominator     # N must be a multiple of it
        N -= N % mult
        if N <= 0:
            continue
        chunk = N // mult * (r.denominator if kind.endswith("In") else r.numerator)
        if 1 <= chunk <= 8192:
            break
    else:
        r, chunk = Fraction(7, 10), 170
    over = {"chunk": chunk, "ch": 1}
    u = rng.random()
    setfirst = u < 0.55
    extreme = None
    if u < 0.25:
        # the boundary ratio is the LOWEST or HIGHEST ratio the resampler can be set to (the advertised maxima
        # are computed for exactly that ratio - seeded change C04n)
        mr = rng.choice([Fraction(3, 2), Fraction(11, 10), Fraction(2), Fraction(3), Fraction(13, 10), Fraction(5, 2)])
        lowest = rng.random() < 0.6
        orig = r * mr if lowest else r / mr
        if max(orig.numerator, orig.denominator) < 1024:
            extreme = "lo" if lowest else "hi"
            over.update({"r": rj(orig), "maxrel": rj(mr)})
    if extreme is None and setfirst:
        orig = rng.choice([Fraction(1), r * 2, r / 2, Fraction(3, 2)])
        over.update({"r": rj(orig), "maxrel": rj(Fraction(4))})
    elif extreme is None:
        over.update({"r": rj(r), "maxrel": rj(rng.choice([Fraction(1), Fraction(2)]))})
    if kind.startswith("Sinc"):
        over.update({"L": rng.choice([8, 16, 64]), "F": rng.choice([2, 16, 128])})
    h = valid_history(rng, kind, rng.randrange(3, 8), allow=("via",), **over)
    if extreme is not None:
        # the bound exactly as a caller computes it: original / max resp. original * max in f64
        h.insert(1, {"op": "set_ratio", "id": 0, "x": {"cls": extreme}, "ramp": False, "rel": False})
        if rng.random() < 0.5:
            h += [{"op": "reset", "id": 0}, {"op": "set_ratio", "id": 0, "x": {"cls": extreme}, "ramp": False, "rel": False},
                  {"op": "process", "id": 0}, {"op": "process", "id": 0}]
    elif setfirst and 1 <= r.numerator < 1024 and r.denominator < 1024 and Fraction(1, 4) <= r / frac_of(h[0]["r"]) <= 4:
        h.insert(1, {"op": "set_ratio", "id": 0, "x": rj(r), "ramp": False, "rel": False})
    return h


BAD_SHAPES = [
    {"in_ch": -1}, {"in_ch": 1}, {"out_ch": -1}, {"out_ch": 1}, {"mask_len": -1}, {"mask_len": 1},
    {"in_ch": -100}, {"out_ch": -100}, {"mask_len": -100},
    {"short_in": [0, 1]}, {"short_in": [0, -1]}, {"short_out": [0, 1]}, {"short_out": [0, -1]},
    {"short_in": [0, 1], "short_out": [0, 1]}, {"in_ch": 1, "out_ch": -1},
    # too long a mask whose surplus entries are FALSE (code that walks the mask instead of the channels)
    {"mask_len": 1, "mask_tail": False}, {"mask_len": 3, "mask_tail": False},
]


def bad_history(rng, kind, ncalls=20, small=False, **over):
    ops = valid_history(rng, kind, ncalls, small, allow=("ratio", "ramp", "chunk", "reset"), **over)
    out = [ops[0]]
    ch = ops[0]["ch"]
    for op in ops[1:]:
        out.append(op)
        if rng.random() < 0.35:
            s = dict(rng.choice(BAD_SHAPES))
            c = rng.randrange(ch)
            for k in ("short_in", "short_out"):
                if k in s:
                    s[k] = [c, s[k][1] if rng.random() < 0.5 else rng.choice([1, 2, -1])]
            b = {"op": "bad", "id": 0, "via": rng.choice(["into", "slices", "vec_into", "alloc", "vec_alloc"])}
            b.update(s)
            if b["via"] in ("alloc", "vec_alloc"):
                # process() allocates the output itself: only input / mask shapes can be wrong
                b.pop("short_out", None)
                b.pop("out_ch", None)
                if not any(k in b for k in ("in_ch", "mask_len", "short_in")):
                    b["short_in"] = [c, 1]
            if ch > 1 and "mask_len" not in b and rng.random() < 0.5:
                # a well-formed mask with inactive channels on a call that is rejected for another reason
                m = [rng.random() < 0.5 for _ in range(ch)]
                for k in ("short_in", "short_out"):
                    if k in b:
                        m[b[k][0]] = True
                b["mask"] = m
            out.append(b)
    return out


def rt_pair_history(rng, kinds=None):
    """Two (or three) live resamplers used alternately on one thread - a duplex device: capture and playback,
    up- and down-sampling with crossed block sizes, siblings of one family. Whatever one instance does must not
    make another one touch the heap (or change its results) (seeded change C09f)."""
    fam = rng.choice(["fft", "fft", "sinc", "fast", "mixed"])
    hs = []
    if fam == "fft":
        a, b = rng.choice([(48000, 192000), (44100, 48000), (1, 4), (3, 2), (8000, 44100), (2, 1)])
        for (x, y) in ((a, b), (b, a)):
            hs.append(rt_history(rng, rng.choice(FFT), rng.randrange(6, 14), fs_in=x, fs_out=y,
                                 chunk=rng.choice([64, 256, 300, 1024]), sub=rng.choice([1, 2])))
    else:
        pool = {"sinc": ["SincFixedIn", "SincFixedOut"], "fast": ["FastFixedIn", "FastFixedOut"], "mixed": KINDS}[fam]
        for _ in range(rng.choice([2, 2, 3])):
            hs.append(rt_history(rng, rng.choice(pool), rng.randrange(6, 14), small=rng.random() < 0.3))
    ops = []
    for i, h in enumerate(hs):
        ops.append(dict(h[0], id=i))
    cur = [1] * len(hs)
    while any(cur[i] < len(hs[i]) for i in range(len(hs))):
        i = rng.choice([k for k in range(len(hs)) if cur[k] < len(hs[k])])
        for _ in range(rng.randrange(1, 3)):
            if cur[i] < len(hs[i]):
                ops.append(dict(hs[i][cur[i]], id=i))
                cur[i] += 1
    return ops


def rt_history(rng, kind, ncalls=30, small=False, **fixed):
    """Every operation that must be real-time safe, at every kind of history point (C09)."""
    over = {}
    if rng.random() < 0.5:
        over = {"signal": "noise", "ch": rng.choice([2, 3, 4])}
        if kind.startswith("Sinc"):
            over["probe"] = "dispatch"
    over.update(fixed)
    ops = valid_history(rng, kind, ncalls, small, allow=("ratio", "ramp", "chunk", "reset"),
                        varymask=bool(over) and "signal" in over, **over)
    out = [ops[0]]
    ch = ops[0]["ch"]
    for op in ops[1:]:
        if op["op"] == "process":
            op = dict(op)
            op["via"] = rng.choice(["into", "slices", "vec_into"])
            if "mask" in op and rng.random() < 0.2:
                op.pop("mask")           # None = all channels active again
        out.append(op)
        u = rng.random()
        if u < 0.15:
            s = dict(rng.choice(BAD_SHAPES))
            b = {"op": "bad", "id": 0, "via": rng.choice(["into", "slices", "vec_into"])}
            b.update(s)
            out.append(b)
        elif u < 0.25:
            out.append({"op": "set_ratio", "id": 0, "x": {"cls": rng.choice(["above", "below", "nan", "zero"])},
                        "ramp": rng.random() < 0.5, "rel": rng.random() < 0.5})
        elif u < 0.32:
            out.append({"op": "set_chunk", "id": 0, "n": rng.choice([0, 1, 10 ** 6])})
        elif u < 0.4:
            out.append({"op": "getters", "id": 0})
    return out


CLASSES = ["lo", "hi", "lo_pred", "lo_succ", "hi_pred", "hi_succ", "below", "above", "nan", "inf", "ninf",
           "zero", "nzero", "neg", "sub", "one", "in", "in", "in"]


def setter_history(rng, kind, ncalls=30):
    """Argument classes of the setters x history points (C12); original/max drawn from wide sets."""
    over = {}
    if kind in ASYNC:
        if rng.random() < 0.6:
            # arbitrary doubles: the exact bounds original*max, original/max are not "nice" numbers
            over["r"] = {"bits": bits(rng.uniform(0.05, 12.0))}
            over["maxrel"] = {"bits": bits(rng.choice([1.0, rng.uniform(1.0, 1.2), rng.uniform(1.0, 16.0), 10.0, 3.0]))}
        over["chunk"] = rng.choice([4, 16, 64, 100])
    n = new_op(rng, kind, **over)
    n["T"] = rng.choice([32, 64])
    ops = [n]
    for _ in range(ncalls):
        u = rng.random()
        if u < 0.55:
            cls = rng.choice(CLASSES)
            x = {"cls": cls}
            if cls == "in":
                x["u"] = rng.randrange(0, 65)
            ops.append({"op": "set_ratio", "id": 0, "x": x, "ramp": rng.random() < 0.5, "rel": rng.random() < 0.5})
        elif u < 0.75:
            cm = n["chunk"]
            ops.append({"op": "set_chunk", "id": 0,
                        "n": rng.choice([0, 1, cm, cm + 1, -1, max(1, cm // 2), rng.randrange(1, cm + 1), 2 * cm])})
        elif u < 0.8:
            ops.append({"op": "reset", "id": 0})
        else:
            ops.append({"op": "process", "id": 0})
    return ops


def ctor_table(rng):
    """Constructor argument table (C13): invalid and valid arguments for every type."""
    ops = []
    bad_r = [{"p": 0, "q": 1}, {"p": -1, "q": 1}, {"bits": bits(-0.0)}, {"bits": bits(-1e-300)},
             {"bits": bits(float("-inf"))}, {"p": -3, "q": 2}]
    good_r = [{"p": 1, "q": 1}, {"p": 3, "q": 2}, {"bits": bits(1e-3)}, {"bits": bits(0.7)}]
    bad_m = [{"p": 1, "q": 2}, {"p": 0, "q": 1}, {"p": -2, "q": 1}, {"bits": bits(0.9999999999999999)},
             {"bits": bits(-0.0)}]
    good_m = [{"p": 1, "q": 1}, {"p": 2, "q": 1}, {"bits": bits(1.0000000000000002)}]
    for kind in ASYNC:
        for _ in range(6):
            r = rng.choice(bad_r + good_r)
            m = rng.choice(bad_m + good_m)
            op = {"op": "new", "id": 0, "kind": kind, "T": rng.choice([32, 64]), "ch": rng.choice([1, 2]),
                  "r": r, "maxrel": m, "chunk": rng.choice([1, 8, 64]), "signal": "zero"}
            if kind.startswith("Fast"):
                op["degree"] = rng.choice(DEGREES)
            else:
                op.update({"L": rng.choice([8, 64]), "F": rng.choice([2, 16]), "interp": rng.choice(INTERPS)})
                # both public constructors: new() and new_with_interpolator() (a caller-supplied kernel)
                op["probe"] = rng.choice(["dispatch", "scalar", "linear", "avx"])
            ops.append(op)
    for kind in FFT:
        for _ in range(5):
            a = rng.choice([0, 0, 1, 2, 44100, 48000])
            b = rng.choice([0, 1, 3, 44100, 8000])
            ops.append({"op": "new", "id": 0, "kind": kind, "T": rng.choice([32, 64]), "ch": 1,
                        "fs_in": a, "fs_out": b, "chunk": rng.choice([1, 16, 256]), "sub": rng.choice([1, 2]),
                        "signal": "zero"})
    return ops


def impulse_history(rng, kind):
    """Constant ratio, one impulse: where does it come out? (C14 for kernels without an instant probe)"""
    from math import gcd
    if kind in FFT:
        a, b = rng.choice([(1, 2), (2, 1), (3, 2), (2, 3), (147, 160), (160, 147), (1, 1), (4, 1), (1, 4),
                           (44100, 48000), (48000, 44100), (8000, 44100), (5, 7)])
        n = new_op(rng, kind, fs_in=a, fs_out=b, signal="impulse", T=rng.choice([32, 64]), ch=1)
        g = gcd(a, b)
        ra, rb = a // g, b // g
        # also blocks of several thousand frames (seeded change C14c: behaviour that depends on the block size)
        n["chunk"] = rng.choice([64, 128, 256, 300, 512, 512, 2500, 4096, 6000])
        n["sub"] = rng.choice([1, 1, 2])
        blk = -(-(n["chunk"] // n["sub"]) // ra) * ra if kind != "FftFixedOut" else -(-(n["chunk"] // n["sub"]) // rb) * ra
        pos = rng.randrange(blk // 2, 3 * blk)
        n["imp"] = [pos]
        total_in = pos + 4 * blk + 2 * n["chunk"] * ra // rb + 64
        ops = [n]
        # enough calls to push the impulse through
        per = max(1, n["chunk"] if kind != "FftFixedOut" else n["chunk"] * ra // rb)
        for _ in range(min(200, total_in // per + 3)):
            ops.append({"op": "process", "id": 0})
        return ops
    r = rng.choice([Fraction(1), Fraction(2), Fraction(1, 2), Fraction(3, 2), Fraction(2, 3), Fraction(160, 147),
                    Fraction(147, 160), Fraction(4), Fraction(1, 4)])
    n = new_op(rng, kind, r=rj(r), maxrel=rj(Fraction(2)), signal="impulse", T=rng.choice([32, 64]), ch=1,
               probe="dispatch")
    n["L"] = rng.choice([32, 64, 128, 256, 40, 50, 100])
    n["F"] = rng.choice([16, 128, 256, 160, 100])
    n["interp"] = rng.choice(["Cubic", "Linear", "Quadratic"])
    n["chunk"] = rng.choice([128, 256, 512])
    pos = rng.randrange(n["L"], n["L"] + 600)
    n["imp"] = [pos]
    ops = [n]
    per_in = n["chunk"] if kind.endswith("In") else max(1, int(n["chunk"] / float(r)))
    for _ in range(min(200, (pos + 3 * n["L"] + 200) // per_in + 3)):
        ops.append({"op": "process", "id": 0})
    return ops


def preset_ratio_history(rng, kind, ncalls=12, **over):
    """A stream that runs at a constant ratio different from the constructor's: the ratio is set
    (absolute, not ramped) before the first frame is processed, or right after a reset."""
    h = valid_history(rng, kind, ncalls, allow=("chunk",), **over)
    n = h[0]
    orig = frac_of(n["r"])
    maxrel = frac_of(n["maxrel"])
    if maxrel == 1:
        n["maxrel"] = rj(Fraction(rng.choice([2, 4, 10, 16])))
        maxrel = frac_of(n["maxrel"])
    rels = [x for x in in_range_rels(maxrel) if x != 1]
    x = orig * rng.choice(rels)
    # extremes matter: the lowest / highest allowed ratio
    if rng.random() < 0.4:
        x = orig / maxrel if rng.random() < 0.5 else orig * maxrel
    if x.numerator >= 1024 or x.denominator >= 1024:
        x = orig * Fraction(1, 2) if Fraction(1, 2) >= 1 / maxrel else orig
    setop = {"op": "set_ratio", "id": 0, "x": rj(x), "ramp": False, "rel": False}
    ops = [n, setop] + h[1:]
    if rng.random() < 0.3:
        k = rng.randrange(2, len(ops))
        ops[k:k] = [{"op": "reset", "id": 0}, dict(setop)]
    return ops


def repo_scenarios(signal_async="index"):
    """The scenarios of the repository's own unit tests (same constructor arguments, same call
    patterns), so that every Contract predicate is evaluated on the executions the existing suite
    already produces but only asserts weakly on."""
    S = []
    sinc = {"L": 64, "F": 16, "interp": "Cubic", "window": "BlackmanHarris2", "fcut_milli": 950}

    def new(kind, T, chunk, r=None, **kw):
        n = {"op": "new", "id": 0, "kind": kind, "T": T, "ch": 2, "chunk": chunk, "seed": 11}
        if kind in ASYNC:
            n["r"] = rj(r)
            n["maxrel"] = rj(Fraction(1))
            if kind.startswith("Sinc"):
                n.update(sinc)
                n["probe"] = "linear" if signal_async == "index" else "dispatch"
            else:
                n["degree"] = "Cubic"
            n["signal"] = signal_async
        else:
            n["signal"] = "noise"
        n.update(kw)
        return n

    for kind in ASYNC:
        for T in (64, 32):
            # make_resampler_*, check_*_output_*: ratio 1.2 / 0.8 / 8 / 0.125, chunk 1024, 50 chunks
            for r in (Fraction(6, 5), Fraction(4, 5), Fraction(8), Fraction(1, 8)):
                S.append([new(kind, T, 1024, r)] + [{"op": "process", "id": 0, "via": "alloc"}] * 50)
            # *_skipped: one channel masked, passed as an empty vector
            for m in ([True, False], [False, True]):
                S.append([new(kind, T, 1024, Fraction(6, 5))]
                         + [{"op": "process", "id": 0, "via": "alloc", "mask": m, "empty_masked": True}] * 3)
            # reset_resampler_*
            S.append([new(kind, T, 1024, Fraction(6, 5)), {"op": "process", "id": 0, "via": "alloc"},
                      {"op": "reset", "id": 0}, {"op": "process", "id": 0, "via": "alloc"}])
        # resample_big_* / resample_small_*: 44.1k <-> 96k, chunk 1024 (100 chunks) and chunk 1
        for r in (Fraction(320, 147), Fraction(147, 320)):
            S.append([new(kind, 32, 1024, r)] + [{"op": "process", "id": 0}] * 100)
            S.append([new(kind, 32, 1, r)] + [{"op": "process", "id": 0}] * 3000)
    # check_*_output_resize (sinc): chunk size 1024 -> 256
    for kind in ("SincFixedIn", "SincFixedOut"):
        S.append([new(kind, 64, 1024, Fraction(6, 5)), {"op": "process", "id": 0, "via": "alloc"},
                  {"op": "set_chunk", "id": 0, "n": 256}] + [{"op": "process", "id": 0, "via": "alloc"}] * 4)
    # synchro.rs
    fft = [("FftFixedInOut", 44100, 48000, 1024, 1), ("FftFixedInOut", 44100, 44110, 1024, 1),
           ("FftFixedIn", 44100, 48000, 1024, 2), ("FftFixedIn", 48000, 16000, 1200, 2),
           ("FftFixedOut", 44100, 192000, 1024, 2), ("FftFixedOut", 44100, 48000, 1024, 2)]
    for kind, a, b, chunk, sub in fft:
        base = new(kind, 64, chunk, fs_in=a, fs_out=b, sub=sub)
        S.append([base] + [{"op": "process", "id": 0, "via": "alloc"}] * 50)
        S.append([base] + [{"op": "process", "id": 0, "via": "alloc", "mask": [True, False], "empty_masked": True}] * 3)
        S.append([base] + [{"op": "process", "id": 0, "via": "alloc", "mask": [False, False], "via": "into"}] * 3)
        S.append([base, {"op": "process", "id": 0, "via": "alloc"}, {"op": "reset", "id": 0},
                  {"op": "process", "id": 0, "via": "alloc"}])
    return S
