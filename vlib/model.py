"""As-is models (AsyncPos, FftBlocks): run TLC, collect statistics and replay scripts, and compare
the model's predictions with what the real code did (spec -> implementation direction)."""
import json, os, re, random
from . import run

FFT_INV = ["TypeOK", "C04_Bounds", "C03_InBuffer", "Contiguous", "C04_Delivers", "C07_Drift",
           "C07_DriftIsSaved", "C07_Blocks"]
ASYNC_INV = ["C03_ReadInBuffer", "C03_SubIndex", "C03_LoadFits", "C06_Supplied", "C04_Written",
             "C04_Bounds", "C07_NoDrift", "PosBounded"]


def setfmt(xs):
    return "{" + ",".join(json.dumps(x) if isinstance(x, str) else str(x) for x in xs) + "}"


def fft_cfg(kinds, rates, chunks, subs, depth=0, emit=False, invariants=FFT_INV):
    lines = ["SPECIFICATION Spec", "CONSTANTS",
             "  Kinds = " + setfmt(kinds), "  Rates = " + setfmt(rates), "  Chunks = " + setfmt(chunks),
             "  Subs = " + setfmt(subs), "  MaxDepth = %d" % depth, "  Emit = %s" % ("TRUE" if emit else "FALSE"),
             "VIEW view", "CONSTRAINT DepthBound", "CHECK_DEADLOCK FALSE", "PROPERTY C10_ResetIsInit"]
    lines += ["INVARIANT " + i for i in invariants]
    if emit:
        lines.append("INVARIANT EmitScript")
    else:
        # the machine takes exactly the transitions of FftInd.tla, whose invariant is proved (FftIndProofs.tla)
        lines += ["PROPERTY IndRefines", "INVARIANT IndInvHere"]
    return "\n".join(lines) + "\n"


def check_proof(wd, timeout=900):
    """tlapm on FftIndProofs.tla (the FFT integer machine for arbitrary rates and sizes). Returns the
    number of proof obligations; a failed or missing proof is a tool error (it says nothing about the code)."""
    import shutil
    d = os.path.join(wd, "proof")
    shutil.rmtree(d, ignore_errors=True)
    os.makedirs(d)
    for f in ("FftIndOps.tla", "FftInd.tla", "FftIndProofs.tla"):
        shutil.copy(os.path.join(run.SPEC, f), d)
    rc, out = run.sh(["timeout", str(timeout), "tlapm", "--threads", "8", "FftIndProofs.tla"], cwd=d)
    m = re.search(r"All (\d+) obligations proved", out)
    if not m:
        raise run.ToolError("tlapm did not prove FftIndProofs.tla:\n" + out[-2000:])
    return int(m.group(1))


def async_cfg(fam, variants, interps, fs, L, chunkmaxs, chunks, ratios, origs, maxrels, q, depth,
              emit=False, invariants=ASYNC_INV):
    lines = ["SPECIFICATION Spec", "CONSTANTS", '  Fam = "%s"' % fam,
             "  Variants = " + setfmt(variants), "  Interps = " + setfmt(interps), "  Fs = " + setfmt(fs),
             "  L = %d" % L, "  ChunkMaxs = " + setfmt(chunkmaxs), "  Chunks = " + setfmt(chunks),
             "  Ratios = " + setfmt(ratios), "  Origs = " + setfmt(origs), "  MaxRels = " + setfmt(maxrels),
             "  Q = %d" % q, "  MaxDepth = %d" % depth, "  Emit = %s" % ("TRUE" if emit else "FALSE"),
             "VIEW view", "CONSTRAINT DepthBound", "ACTION_CONSTRAINT Alive", "CHECK_DEADLOCK FALSE",
             "PROPERTY C10_ResetIsInit"]
    lines += ["INVARIANT " + i for i in invariants]
    if emit:
        lines.append("INVARIANT EmitScript")
    return "\n".join(lines) + "\n"


REPLAY_RE = re.compile(r'^"REPLAY\|(.*)"$')


def parse_tlc(out):
    """-> dict(ok, states, distinct, replays, error)"""
    gen, dist = run.tlc_stats(out)
    ok = ("Model checking completed. No error has been found." in out
          or ("Running Random Simulation" in out and "Error:" not in out))
    reps = []
    for line in out.splitlines():
        m = REPLAY_RE.match(line.strip())
        if m:
            txt = m.group(1).replace('\\"', '"').replace("\\\\", "\\")
            try:
                reps.append(json.loads(txt))
            except Exception:
                pass
    err = ""
    if not ok:
        m = re.search(r"Error: (.*)", out)
        err = m.group(1) if m else out[-800:]
    cov = {}
    return {"ok": ok, "generated": gen, "distinct": dist, "replays": reps, "error": err}


def check_model(module, cfg_text, wd, tag, workers=8, timeout=1500, coverage=False, simulate=None):
    """simulate=(num, depth, seed): random behaviours instead of exhaustive exploration (used to draw
    replay scripts quickly; the exhaustive run is a separate call)."""
    extra = ["-coverage", "1"] if coverage else []
    if simulate:
        num, depth, seed = simulate
        extra += ["-simulate", "num=%d" % num, "-depth", str(depth), "-seed", str(seed)]
    rc, out = run.tlc(module, cfg_text, wd, tag, workers=workers, timeout=timeout, xmx="6g", extra=extra)
    res = parse_tlc(out)
    res["rc"] = rc
    res["out"] = out
    if rc == 124:
        raise run.ToolError("TLC timeout on %s (%s)" % (module, tag))
    if not res["ok"] and "is violated" not in out and "Temporal properties were violated" not in out:
        raise run.ToolError("TLC failed on %s (%s):\n%s" % (module, tag, out[-3000:]))
    return res


def maximal(reps, limit=None, rng=None):
    """drop replays that are a proper prefix of another one; optionally sample"""
    keys = [json.dumps(r, sort_keys=True)[:-1] for r in reps]   # without the closing bracket
    s = sorted(range(len(reps)), key=lambda i: keys[i])
    keep = []
    for j, i in enumerate(s):
        if j + 1 < len(s) and keys[s[j + 1]].startswith(keys[i] + ","):
            continue
        keep.append(reps[i])
    if limit is not None and len(keep) > limit:
        rng = rng or random.Random(0)
        keep = rng.sample(keep, limit)
    return keep


# ------------------------------------------------------------------------------------------------
# conversion of model behaviours to driver scripts

def fft_script(hist, T=64, ch=1, signal="noise"):
    c = hist[0]["cfg"]
    ops = [{"op": "new", "id": 0, "kind": c["kind"], "T": T, "ch": ch, "fs_in": c["fs_in"],
            "fs_out": c["fs_out"], "chunk": c["chunk"], "sub": c["sub"], "signal": signal, "seed": 7}]
    exp = [hist[0]]
    for h in hist[1:]:
        o = h["op"]
        if o == "process":
            ops.append({"op": "process", "id": 0})
        elif o == "reset":
            ops.append({"op": "reset", "id": 0})
        elif o == "set_ratio":
            ops.append({"op": "set_ratio", "id": 0, "x": {"p": 1, "q": 1}, "ramp": False})
        elif o == "set_chunk":
            ops.append({"op": "set_chunk", "id": 0, "n": 1})
        elif o == "bad_in":
            ops.append({"op": "bad", "id": 0, "short_in": [0, 1]})
        elif o == "bad_out":
            ops.append({"op": "bad", "id": 0, "short_out": [0, 1]})
        elif o == "bad_mask":
            ops.append({"op": "bad", "id": 0, "mask_len": 1})
        exp.append(h)
    return ops, exp


def async_script(hist, T=64, ch=1):
    c = hist[0]["cfg"]
    fam = hist[0]["fam"]
    kind = fam + "Fixed" + c["variant"]
    n = {"op": "new", "id": 0, "kind": kind, "T": T, "ch": ch,
         "r": {"p": c["orig"] // 1000, "q": c["orig"] % 1000},
         "maxrel": {"p": c["maxrel"] // 1000, "q": c["maxrel"] % 1000},
         "chunk": c["chunkMax"], "signal": "index", "seed": 7}
    if fam == "Fast":
        n["degree"] = c["interp"]
    else:
        n.update({"L": hist[0]["L"], "F": c["F"], "interp": c["interp"], "probe": "linear"})
    ops, exp = [n], [hist[0]]
    for h in hist[1:]:
        o = h["op"]
        if o == "process":
            ops.append({"op": "process", "id": 0})
        elif o == "reset":
            ops.append({"op": "reset", "id": 0})
        elif o == "set_ratio":
            ops.append({"op": "set_ratio", "id": 0, "x": {"p": h["p"], "q": h["q"]}, "ramp": h["ramp"]})
        elif o == "set_chunk":
            ops.append({"op": "set_chunk", "id": 0, "n": h["n"]})
        exp.append(h)
    return ops, exp


# ------------------------------------------------------------------------------------------------
# as-is comparison: model prediction vs event

def compare(exp, events, q=None):
    """Returns list of drift descriptions (empty = the code did what the model predicts)."""
    drifts = []
    evs = [e for e in events if e.get("ev") not in ("begin", "end", "note")]
    for k, (h, e) in enumerate(zip(exp, evs)):
        where = "step %d (%s)" % (k + 1, h["op"])
        if h["op"] == "new":
            if e.get("res") != "ok":
                drifts.append(where + ": constructor failed")
                break
            g = h.get("g", {})
            for key, val in g.items():
                if e["post"].get(key) != val:
                    drifts.append("%s: %s model %s code %s" % (where, key, val, e["post"].get(key)))
            continue
        died = e.get("res") in ("panic", "abort")
        if not h.get("exact", True):
            break       # inexact regime (non-dyadic ramp increment): contract level only from here on
        if h.get("dies"):
            if not died and e.get("ev") == "process":
                # the model only says a precondition is violated; the code may survive it
                pass
            break
        if died:
            drifts.append("%s: code died (%s) where the model does not" % (where, e.get("msg", "")[:80]))
            break
        if h["op"] == "process":
            if e.get("res") != "ok":
                drifts.append("%s: res %s" % (where, e.get("res")))
                break
            for key in ("nin", "nout"):
                if e.get(key) != h[key]:
                    drifts.append("%s: %s model %s code %s" % (where, key, h[key], e.get(key)))
        if h["op"] in ("set_ratio", "set_chunk") and "ok" in h:
            if (e.get("res") == "ok") != bool(h["ok"]):
                drifts.append("%s: accepted model %s code %s" % (where, h["ok"], e.get("res")))
        g = h.get("g", {})
        for key, val in g.items():
            if e.get("post", {}).get(key) != val:
                drifts.append("%s: %s model %s code %s" % (where, key, val, e["post"].get(key)))
        if q and "li" in h and "priv" in e and "li" in e["priv"] and h.get("exact", True):
            mi, mf = h["li"]
            ci, cf = e["priv"]["li"]
            mv = mi * (1 << 20) + (mf * (1 << 20)) // q
            cv = ci * (1 << 20) + cf
            if abs(mv - cv) > 2:
                drifts.append("%s: last_index model %s/%s code %s" % (where, mi, mf, e["priv"]["li"]))
        if drifts:
            break
    return drifts
