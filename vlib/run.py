"""Orchestration helpers: build the harness, run scripts in the driver, run TLC."""
import json, os, re, shutil, subprocess, sys, time, hashlib
from concurrent.futures import ThreadPoolExecutor

VERIF = os.path.dirname(os.path.dirname(os.path.abspath(__file__)))
SPEC = os.path.join(VERIF, "spec")
HARNESS = os.path.join(VERIF, "harness")
DRIVER = os.path.join(HARNESS, "target", "verif", "driver")
WORKROOT = os.path.join(VERIF, ".work")
# development aid (tools/coverage.sh): VERIF_COVERAGE=<dir> builds the driver with source-based coverage
# instrumentation (nightly toolchain, separate target dir) and collects the raw profiles in <dir>
COVERAGE = os.environ.get("VERIF_COVERAGE")
if COVERAGE:
    DRIVER = os.path.join(HARNESS, "target-cov", "verif", "driver")
    os.environ["LLVM_PROFILE_FILE"] = os.path.join(COVERAGE, "cov-%8m.profraw")


class ToolError(Exception):
    pass


def sh(cmd, cwd=None, env=None, timeout=None):
    e = dict(os.environ)
    if env:
        e.update(env)
    p = subprocess.run(cmd, cwd=cwd, env=e, stdout=subprocess.PIPE, stderr=subprocess.STDOUT,
                       timeout=timeout, text=True, errors="replace")
    return p.returncode, p.stdout


def repo_digest(target):
    """content hash of everything of the rubato checkout that goes into the build"""
    h = hashlib.sha256()
    files = []
    for root, dirs, names in os.walk(os.path.join(target, "src")):
        dirs.sort()
        files += [os.path.join(root, n) for n in sorted(names)]
    files += [os.path.join(target, n) for n in ("Cargo.toml", "build.rs")]
    for f in files:
        if os.path.isfile(f):
            h.update(os.path.relpath(f, target).encode())
            with open(f, "rb") as fh:
                h.update(fh.read())
    return h.hexdigest()


def build_harness():
    """Rebuild the driver against /repo's current working tree (path dependency).

    cargo decides by modification times whether the rubato sources changed.  That is not enough here:
    the dependency path is the symlink .repo-link (switched between /repo and scratch checkouts by
    VERIF_REPO), and a tree can be changed or restored with old time stamps.  A stamp next to the build
    output records which checkout and which CONTENT the driver was built from; when it differs, the rubato
    package is cleaned first, so the driver never contains code other than the current working tree's."""
    env = {"CARGO_NET_OFFLINE": "true"}
    # the harness depends on ../.repo-link: /repo unless VERIF_REPO names another checkout (used for
    # long background runs on a frozen copy; the registered checks always use /repo)
    link = os.path.join(VERIF, ".repo-link")
    target = os.environ.get("VERIF_REPO", "/repo")
    if not (os.path.islink(link) and os.readlink(link) == target):
        try:
            os.remove(link)
        except OSError:
            pass
        os.symlink(target, link)
    tdir = "target-cov" if COVERAGE else "target"
    cmd = ["cargo", "build", "--offline", "--profile", "verif", "--bins"]
    clean = ["cargo", "clean", "--offline", "--profile", "verif", "-p", "rubato"]
    if COVERAGE:
        cmd = ["cargo", "+nightly", "build", "--offline", "--profile", "verif", "--bins", "--target-dir", tdir]
        clean = ["cargo", "+nightly", "clean", "--offline", "--profile", "verif", "-p", "rubato", "--target-dir", tdir]
        env["RUSTFLAGS"] = "-C instrument-coverage"
    stamp = os.path.join(HARNESS, tdir, ".repo-stamp")
    want = "%s %s" % (os.path.realpath(target), repo_digest(target))
    have = open(stamp).read().strip() if os.path.exists(stamp) else ""
    if have != want and os.path.isdir(os.path.join(HARNESS, tdir)):
        try:
            os.remove(stamp)
        except OSError:
            pass
        rc, out = sh(clean, cwd=HARNESS, env=env, timeout=600)
        if rc != 0:
            shutil.rmtree(os.path.join(HARNESS, tdir, "verif"), ignore_errors=True)
    rc, out = sh(cmd, cwd=HARNESS, env=env, timeout=1800)
    if rc != 0:
        raise ToolError("harness build failed:\n" + out[-4000:])
    with open(stamp, "w") as f:
        f.write(want + "\n")
    return DRIVER


def workdir(tag):
    d = os.path.join(WORKROOT, "%s-%d" % (tag, os.getpid()))
    shutil.rmtree(d, ignore_errors=True)
    os.makedirs(d)
    return d


def write_script(path, ops):
    with open(path, "w") as f:
        for op in ops:
            f.write(json.dumps(op, separators=(",", ":")) + "\n")


def run_scripts(scripts, wd, jobs=16, prefix="s"):
    """scripts: list of op lists (or (name, ops)).  Returns list of (script_path, trace_path)."""
    pairs = []
    sd = os.path.join(wd, "scripts")
    os.makedirs(sd, exist_ok=True)
    for k, s in enumerate(scripts):
        name, ops = s if isinstance(s, tuple) else ("%s%05d" % (prefix, k), s)
        sp = os.path.join(sd, name + ".jsonl")
        tp = os.path.join(sd, name + ".ndjson")
        write_script(sp, ops)
        pairs.append((sp, tp))
    lst = os.path.join(wd, prefix + "-list.txt")
    with open(lst, "w") as f:
        for sp, tp in pairs:
            f.write("%s\t%s\n" % (sp, tp))
    rc, out = sh([DRIVER, "batch", lst, str(jobs)], timeout=3600)
    if rc != 0:
        raise ToolError("driver batch failed rc=%d\n%s" % (rc, out[-2000:]))
    for sp, tp in pairs:
        if not os.path.exists(tp):
            raise ToolError("driver produced no trace for " + sp)
    return pairs


def read_trace(tp):
    with open(tp) as f:
        return [json.loads(l) for l in f if l.strip()]


VIOL_RE = re.compile(r'^"(VIOL|KNOWN)\|(.*)"$')


def _parse_tuple(body):
    # "C14_Delay", "path", 2, "process"   (no nested commas inside strings expected except paths)
    out = []
    for m in re.finditer(r'"((?:[^"\\]|\\.)*)"|(-?\d+)', body):
        out.append(m.group(1) if m.group(1) is not None else int(m.group(2)))
    return out


def tlc(module, cfg_text, wd, tag, env=None, workers=1, timeout=1800, xmx="3g", extra=None, deque=False):
    """Run TLC on spec/<module>.tla with the given cfg text.  Returns (rc, stdout)."""
    cfg = os.path.join(wd, tag + ".cfg")
    with open(cfg, "w") as f:
        f.write(cfg_text)
    meta = os.path.join(wd, tag + "-meta")
    jopts = "-Xss1g -Xmx%s" % xmx
    if deque:
        jopts += " -Dtlc2.tool.queue.IStateQueue=StateDeque"
    e = {"JAVA_TOOL_OPTIONS": jopts}
    if env:
        e.update(env)
    cmd = ["timeout", str(timeout), "tlc", "-workers", str(workers), "-metadir", meta, "-noGenerateSpecTE",
           "-config", cfg] + (extra or []) + [module + ".tla"]
    rc, out = sh(cmd, cwd=SPEC, env=e, timeout=timeout + 60)
    shutil.rmtree(meta, ignore_errors=True)
    return rc, out


def tlc_stats(out):
    """states generated, distinct states from TLC's summary line"""
    m = re.search(r"(\d+) states generated, (\d+) distinct states found", out)
    if not m:
        return 0, 0
    return int(m.group(1)), int(m.group(2))


def trace_cfg(invariants, hard=False):
    pre = "H_" if hard else "S_"
    lines = ["SPECIFICATION TraceSpec", "CONSTRAINT Progress", "POSTCONDITION TraceAccepted",
             "CHECK_DEADLOCK FALSE"]
    lines += ["INVARIANT %s%s" % (pre, i) for i in invariants]
    return "\n".join(lines) + "\n"


def validate_traces(pairs, invariants, wd, module="TraceContract", batch_events=4000, jobs=8, tag="tv"):
    """Trace validation of many traces, batched (several traces per JVM), soft invariants.

    Returns dict: viols = list of (kind, name, script, line, ev), states, transitions, traces, events.
    A trace TLC cannot match is a tool error.
    """
    batches, cur, n = [], [], 0
    for sp, tp in pairs:
        with open(tp) as f:
            txt = f.read()
        k = txt.count("\n")
        if cur and n + k > batch_events:
            batches.append(cur)
            cur, n = [], 0
        cur.append(txt)
        n += k
    if cur:
        batches.append(cur)
    cfg = trace_cfg(invariants)

    def one(ib):
        i, b = ib
        path = os.path.join(wd, "%s-batch%04d.ndjson" % (tag, i))
        with open(path, "w") as f:
            f.write("".join(b))
        rc, out = tlc(module, cfg, wd, "%s-b%04d" % (tag, i), env={"TRACE": path}, workers=1, timeout=1200)
        return i, rc, out, path

    res = {"viols": [], "states": 0, "transitions": 0, "traces": len(pairs), "events": 0, "batches": len(batches)}
    with ThreadPoolExecutor(max_workers=jobs) as ex:
        for i, rc, out, path in ex.map(one, enumerate(batches)):
            if "UNMATCHED" in out or rc != 0 or "Model checking completed. No error has been found." not in out:
                keep = os.path.join(VERIF, "replays", "toolerror-%s-%d.log" % (tag, i))
                os.makedirs(os.path.dirname(keep), exist_ok=True)
                with open(keep, "w") as f:
                    f.write(out)
                shutil.copy(path, keep.replace(".log", ".ndjson"))
                early = [l for l in out.splitlines() if VIOL_RE.match(l.strip()) and l.strip().startswith('"VIOL|')]
                if not early:
                    raise ToolError("TLC could not validate batch %d (rc=%d); log %s\n%s" % (i, rc, keep, out[-1500:]))
                # TLC gave up on this batch AFTER predicates had already failed on earlier events (typically the
                # execution went haywire after the violation): the violations found are reported, the rest of
                # the batch is not validated
                print("NOTE: TLC stopped in batch %d after %d violation line(s); rest of the batch not validated (log %s)"
                      % (i, len(early), keep))
                res["incomplete_batches"] = res.get("incomplete_batches", 0) + 1
            gen, dist = tlc_stats(out)
            res["states"] += dist
            res["transitions"] += gen
            res["events"] += dist - 1
            for line in out.splitlines():
                if line.startswith('"COUNTS|'):
                    t = line.strip().strip('"').split("|")
                    names = ["procOk", "withTaus", "ramped", "constRatio", "setOk", "setRej", "chunkOk",
                             "chunkRej", "badFaulty", "rtSafe", "peak", "flush"]
                    c = res.setdefault("counts", dict.fromkeys(names, 0))
                    for nm, v in zip(names, t[2:]):
                        c[nm] += int(v)
                    continue
                if line.startswith('"PAIRS|'):
                    t = line.strip().strip('"').split("|")
                    res.setdefault("pairs", []).append((t[1], int(t[2]), int(t[3])))
                    continue
                m = VIOL_RE.match(line.strip())
                if m:
                    t = m.group(2).split("|")
                    res["viols"].append((m.group(1), t[1], t[2], int(t[3]), t[4], t[0]))
            os.remove(path)
    return res


def replay_hard(script_path, invariants, wd, module="TraceContract"):
    """Re-run one script and validate it with hard invariants. Returns (ok, tlc output)."""
    tp = os.path.join(wd, "replay.ndjson")
    rc, out = sh([DRIVER, "run", script_path, tp])
    if rc != 0:
        raise ToolError("driver run failed: " + out)
    rc, out = tlc(module, trace_cfg(invariants, hard=True), wd, "replay", env={"TRACE": tp})
    ok = rc == 0 and "No error has been found" in out
    return ok, out


def save_replay(prop, script_path, note=""):
    d = os.path.join(VERIF, "replays", prop)
    os.makedirs(d, exist_ok=True)
    with open(script_path, "rb") as f:
        data = f.read()
    h = hashlib.sha1(data).hexdigest()[:12]
    dst = os.path.join(d, "%s.jsonl" % h)
    with open(dst, "wb") as f:
        f.write(data)
    return dst


def write_evidence(prop, tier, seed, level, coverage, wall, violations, assumptions):
    os.makedirs(os.path.join(VERIF, "evidence"), exist_ok=True)
    ev = {"property_id": prop, "tier": tier, "seed": int(seed), "level": level, "coverage": coverage,
          "assumptions": assumptions, "wall_s": round(wall, 2), "violations": int(violations)}
    with open(os.path.join(VERIF, "evidence", prop + ".json"), "w") as f:
        json.dump(ev, f, indent=1)
    return ev


def pair_stats(res, cov, what="twin"):
    """vacuity guard for twin validations: how many observation pairs were actually compared"""
    pairs = res.get("pairs", [])
    withrel = [p for p in pairs if p[2] >= 0]
    total = sum(p[1] for p in withrel)
    empty = sum(1 for p in withrel if p[2] == 0)
    cov["twin_pairs_compared"] = total
    cov["twin_scripts_with_relations"] = len(withrel)
    cov["twin_scripts_with_an_empty_relation"] = empty
    if withrel and (total == 0 or empty * 5 > len(withrel) * 2):
        raise ToolError("vacuous %s validation: %d of %d scripts have a relation that compared nothing (total pairs %d)"
                        % (what, empty, len(withrel), total))
