"""Shapes.tla: exhaustive case tables of validate_buffers (C13) and of the partial wrapper (C16);
every case TLC enumerates can be executed against the real code."""
import json, random
from . import gen, model, run


def shapes_cfg(nch, need, emit, invariants=("C13_DecisionSound", "C16_PaddingExact", "D10_EmptyActiveFails")):
    return ("SPECIFICATION Spec\nCONSTANTS\n  NCh = %d\n  Need = %d\n  Emit = %s\nCHECK_DEADLOCK FALSE\n" % (
        nch, need, "TRUE" if emit else "FALSE")
        + "".join("INVARIANT %s\n" % i for i in invariants) + ("INVARIANT EmitCase\n" if emit else ""))


def cases(nch, wd, tag, cov):
    r = model.check_model("Shapes", shapes_cfg(nch, 3, True), wd, "%s-shapes%d" % (tag, nch), workers=1, timeout=1200)
    if not r["ok"]:
        raise run.ToolError("Shapes.tla fails on its own: " + r["error"])
    cov["states"] += r["distinct"]
    cov["transitions"] += r["generated"]
    cov["model_runs"].append({"module": "Shapes", "config": "NCh=%d" % nch, "distinct": r["distinct"],
                              "generated": r["generated"], "ok": True,
                              "invariants": ["C13_DecisionSound", "C16_PaddingExact", "D10_EmptyActiveFails"]})
    v = [c for c in r["replays"] if c["part"] == "validate"]
    p = [c for c in r["replays"] if c["part"] == "partial"]
    return v, p


def _by(x):
    return {0: -1, 2: 1, 3: 0}[x]       # Need = 3: empty, short by one, exact


def validate_scripts(vcases, nch, rng, per_script=60, nscripts=40):
    """malformed-call shapes injected into a running instance of a random kind"""
    S, E = [], []
    for _ in range(nscripts):
        kind = rng.choice(gen.KINDS)
        n = gen.new_op(rng, kind, small=rng.random() < 0.5)
        n["ch"] = nch
        n["signal"] = "noise"
        n.pop("probe", None)
        if kind in ("FastFixedIn", "SincFixedIn"):
            n["maxrel"] = {"p": 11, "q": 10}
        if n.get("F") == 1:
            n["F"] = 2
        ops = [n, {"op": "process", "id": 0}]
        exp = [None, None]
        for c in rng.sample(vcases, min(per_script, len(vcases))):
            s = c["shape"]
            op = {"op": "bad", "id": 0, "via": rng.choice(["into", "slices", "vec_into"]),
                  "in_ch": s["nin"] - nch, "out_ch": s["nout"] - nch,
                  "in_short": [_by(x) for x in s["inlen"]], "out_short": [_by(x) for x in s["outlen"]]}
            if s["hasmask"]:
                op["mask"] = list(s["mask"])
            ops.append(op)
            exp.append(c["expect"])
            if rng.random() < 0.2:
                ops.append({"op": "process", "id": 0})
                exp.append(None)
        S.append(ops)
        E.append(exp)
    return S, E


SYM = {0: "0", 1: "1", 2: "n-1", 3: "n", 5: "n+2"}


def partial_scripts(pcases, nch, rng, limit=400):
    S = []
    for c in (rng.sample(pcases, limit) if len(pcases) > limit else pcases):
        s = c["shape"]
        # the length classes 0 < 1 < n-1 < n < n+2 of the specification are distinct only when at least
        # 3 frames are due: types whose input_frames_next is a constant >= 4 are used
        kind = rng.choice(["FastFixedIn", "SincFixedIn", "FftFixedIn", "FftFixedInOut"])
        n = gen.new_op(rng, kind, small=rng.random() < 0.5)
        n["ch"] = nch
        n["signal"] = "noise"
        n.pop("probe", None)
        if n.get("F") == 1:
            n["F"] = 2
        n["chunk"] = max(n["chunk"], 4)
        a = {"op": "partial", "id": 0, "kpc": [SYM[x] for x in s["len"]], "k": 1,
             "via": rng.choice(["into", "alloc", "vec_into", "vec_alloc"])}
        b = {"op": "process", "id": 1, "via": "into", "zpc": [SYM[min(x, 3)] for x in s["len"]], "zero_from": 0}
        if s["hasmask"]:
            a["mask"] = list(s["mask"])
            b["mask"] = list(s["mask"])
            if not any(s["mask"]):
                a["via"] = "into"
        ops = [dict(n, id=0), dict(n, id=1), {"op": "note", "twin": "full", "a": 0, "b": 1},
               {"op": "process", "id": 0}, {"op": "process", "id": 1}, a]
        if c["expect"] == "Ok":
            ops.append(b)
        ops += [{"op": "process", "id": 0}, {"op": "process", "id": 1}, {"op": "process", "id": 0},
                {"op": "process", "id": 1}]
        S.append(ops)
    return S


def compare_validate(exp, events):
    """as-is: the variant the transcribed decision order predicts (only where sizes make the abstraction
    exact: at least 2 frames due on both sides)"""
    drifts = []
    evs = [e for e in events if e.get("ev") in ("new", "process", "bad")]
    for x, e in zip(exp, evs):
        if x is None or e.get("ev") != "bad":
            continue
        if e["pre"]["in_next"] < 2 or e["pre"]["out_next"] < 2:
            continue
        got = "Ok" if e.get("res") == "ok" else e.get("variant", e.get("res"))
        if got != x:
            drifts.append("line %s: model %s code %s" % (e.get("line"), x, got))
    return drifts
