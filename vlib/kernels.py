PLANS = {}
def check(prop, tier, seed, replay=None):
    raise NotImplementedError
