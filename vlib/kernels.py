"""C08 (polynomial resamplers are the Lagrange interpolant) and C15 (SIMD kernels = scalar kernel):
Kernels.tla checked by TLC + one-hot conformance of the real code validated against TraceTwin.tla."""
import json, os, random, shutil, time
from fractions import Fraction
from . import gen, model, run, props

PLANS = {
    # "at uniformly spaced instants 1/ratio input samples apart": the spacing predicates of the contract are
    # evaluated on the same traces (the one-hot/polynomial twins take the instants from the probe instance, so
    # a frame evaluated at a wrong instant is invisible to them - seeded change C08c)
    "C08": {"twin": ["TwinPoly", "TwinNear", "TwinNearest"], "model_inv": ["C08_Cardinal"],
            "contract": ["C06_Increasing", "C06_StepInRange"]},
    "C15": {"twin": ["KernelEq", "TwinCtl", "TwinNear"],
            "model_inv": ["C15_LoopPairs", "C15_ResultExact", "C15_BranchDelay"]},
}


def kernels_cfg(ls, fs, invariants):
    return ("SPECIFICATION Spec\nCONSTANTS\n  Ls = %s\n  FsK = %s\nCHECK_DEADLOCK FALSE\n" % (
        model.setfmt(ls), model.setfmt(fs)) + "".join("INVARIANT %s\n" % i for i in invariants))


def with_id(op, i):
    o = dict(op)
    o["id"] = i
    return o


DY_RATIOS = [Fraction(8), Fraction(4), Fraction(2), Fraction(16), Fraction(1), Fraction(1, 2), Fraction(8, 3),
             Fraction(4, 3), Fraction(16, 5), Fraction(1, 4), Fraction(8, 7), Fraction(32, 5)]
# strong downsampling: steps of 8..32 input frames per output frame put the first position of a chunk
# anywhere in the kept history (every start index -16..-1 relative to the chunk), seeded change C08c
DY_LOW = [Fraction(1, 8), Fraction(1, 10), Fraction(1, 11), Fraction(1, 12), Fraction(2, 21), Fraction(2, 23),
          Fraction(4, 45), Fraction(1, 16), Fraction(2, 19), Fraction(4, 37), Fraction(1, 9), Fraction(1, 13),
          Fraction(1, 32), Fraction(2, 25)]


def c08_scripts(rng, tier):
    """index-signal instance + one-hot instance, identical calls; dyadic phase grids (ratio 2^k/odd)."""
    S = []
    n = {"quick": 20, "thorough": 500}[tier]
    for _ in range(n):
        for deg in ["Septic", "Quintic", "Cubic", "Linear", "Nearest"]:
            for kind in ("FastFixedIn", "FastFixedOut"):
                r = rng.choice(DY_RATIOS) if rng.random() < 0.6 else rng.choice(DY_LOW)
                T = rng.choice([64, 64, 32])
                chunk = rng.choice([8, 16, 32, 64, 100]) if kind == "FastFixedIn" else rng.choice([16, 64, 128, 333])
                if r < Fraction(1, 7):
                    chunk = rng.choice([16, 32, 64, 100]) if kind == "FastFixedIn" else rng.choice([1, 2, 3, 5, 8])
                base = {"op": "new", "kind": kind, "T": T, "ch": 1, "r": gen.rj(r), "maxrel": gen.rj(Fraction(1)),
                        "degree": deg, "chunk": chunk, "seed": 3, "taus_cap": 100000}
                low = r < Fraction(1, 7)
                hots = sorted(rng.sample(range(9, 200), 6)) if low else sorted(rng.sample(range(9, 60), 3))
                a = dict(base); a["signal"] = "index"; a["T"] = 64
                ops = [with_id(a, 0)]
                for k, h in enumerate(hots):
                    b = dict(base); b["signal"] = "impulse"; b["imp"] = [h]; b["vals"] = True
                    ops.append(with_id(b, 1 + k))
                    ops.append({"op": "note", "twin": "poly", "a": 0, "b": 1 + k, "c": h, "degree": deg})
                need_in = 260 if low else 80
                per_in = chunk if kind == "FastFixedIn" else max(1, int(chunk / float(r)))
                calls = min(120, need_in // per_in + 3)
                for _c in range(calls):
                    for i in range(1 + len(hots)):
                        ops.append({"op": "process", "id": i})
                S.append(ops)
    # Nearest against Linear: the Nearest resampler picks the sample at or just before the instant at which its
    # Linear twin evaluates (TwinNearest); ratios whose chunks end exactly on input frames included
    for _ in range({"quick": 40, "thorough": 400}[tier]):
        for kind in ("FastFixedIn", "FastFixedOut"):
            r = rng.choice(gen.RATIOS + [Fraction(6), Fraction(20, 3), Fraction(9, 8), Fraction(25, 7), Fraction(5, 9),
                                         Fraction(6), Fraction(9, 8)])
            chunk = rng.choice([1, 2, 7, 16, 48, 100, 480, 333])
            base = {"op": "new", "kind": kind, "T": 64, "ch": 1, "r": gen.rj(r), "maxrel": gen.rj(Fraction(2)),
                    "chunk": chunk, "seed": 3, "signal": "index", "taus_cap": 100000}
            a = dict(base, degree="Linear", id=0)
            b = dict(base, degree="Nearest", id=1)
            ops = [a, b, {"op": "note", "twin": "nearest", "a": 0, "b": 1}]
            per_out = max(1.0, chunk * float(r)) if kind == "FastFixedIn" else chunk
            for _c in range(int(min(300, 1500 / per_out + 4))):
                ops += [{"op": "process", "id": 0}, {"op": "process", "id": 1}]
                if rng.random() < 0.05:
                    x = gen.rj(r * rng.choice([Fraction(1, 2), Fraction(3, 2), Fraction(1), Fraction(2)]))
                    ops += [{"op": "set_ratio", "id": i, "x": x, "ramp": False, "rel": False} for i in (0, 1)]
            S.append(ops)
    # numeric guard (TwinNear): polynomials of admissible degree are reproduced to rounding, at arbitrary
    # ratios and chunkings, f32 and f64. Instance 0 (index signal) gives the instants, instance 1 is fed
    # p(n); the driver measures |out - p(instant)| in units of eps*max|p| (measured on the unchanged
    # tree: <= 12 units; bound 128).
    degs = {"Septic": 7, "Quintic": 5, "Cubic": 3, "Linear": 1}
    for _ in range({"quick": 25, "thorough": 600}[tier]):
        for deg, d in degs.items():
            for kind in ("FastFixedIn", "FastFixedOut"):
                r = rng.choice(gen.RATIOS) if rng.random() < 0.7 else rng.choice(DY_LOW + [Fraction(3, 31), Fraction(5, 53)])
                chunk = rng.choice([16, 64, 100, 256])
                if r < Fraction(1, 7) and kind == "FastFixedOut":
                    chunk = rng.choice([1, 2, 3, 5, 8, 16])
                base = {"op": "new", "kind": kind, "ch": 1, "r": gen.rj(r), "maxrel": gen.rj(Fraction(2)),
                        "degree": deg, "chunk": chunk, "seed": 3}
                dd = rng.randrange(0, d + 1)
                coef = [rng.uniform(-1, 1) / (50.0 ** k) for k in range(dd + 1)]
                a = dict(base, signal="index", T=64, id=0)
                b = dict(base, signal="poly", coef=coef, T=rng.choice([32, 64]), id=1)
                ops = [a, b]
                per_in = chunk if kind == "FastFixedIn" else max(1, int(chunk / float(r)))
                for _c in range(min(60, 400 // per_in + 3)):
                    ops += [{"op": "process", "id": 0}, {"op": "process", "id": 1},
                            {"op": "cmp_poly", "a": 0, "b": 1, "bound": 128}]
                S.append(ops)
    return S


def c15_scripts(rng, tier):
    S = []
    n = {"quick": 40, "thorough": 1500}[tier]
    # ---- one-hot probes of the public kernels
    for _ in range(n):
        for T in (32, 64):
            L = rng.choice([8, 16, 24, 32, 64, 128, 256] if tier == "quick" else
                           [8, 16, 24, 32, 40, 48, 56, 64, 72, 88, 104, 128, 136, 256, 512])
            # oversampling factors that are not powers of two are valid too (160 is the documented example)
            F = rng.choice([1, 2, 4, 16, 128, 256, 3, 5, 100, 160] if tier == "quick" else
                           [1, 2, 3, 4, 5, 7, 16, 100, 128, 147, 160, 256, 512])
            pairs = []
            for _p in range({"quick": 6, "thorough": 30}[tier]):
                pairs.append([rng.randrange(0, 40), rng.randrange(0, F), rng.randrange(0, 8)])
            pairs.append([0, 0, 0])
            pairs.append([3, F - 1, 1])
            S.append([{"op": "kernels", "T": T, "L": L, "F": F, "window": rng.choice(gen.WINDOWS),
                       "fcut_milli": rng.choice([950, 900, 500, 990]), "seed": rng.randrange(1 << 20),
                       "pairs": pairs}])
    # ---- resamplers built on each kernel vs the dispatched one: identical control decisions and
    #      outputs within the summation-order bound (guard)
    for _ in range(n):
        for kind in ("SincFixedIn", "SincFixedOut"):
            h = gen.valid_history(rng, kind, rng.randrange(4, 14), allow=("ratio", "ramp", "chunk", "reset"))
            base = h[0]
            base["signal"] = rng.choice(["noise", "big"])
            base["ch"] = 1
            if base["kind"] == "SincFixedIn":
                base["maxrel"] = {"p": 11, "q": 10}
            if base.get("F") == 1:
                base["F"] = 2
            names = ["dispatch", "scalar", "avx", "sse"]
            ops = []
            for i, nm in enumerate(names):
                b = dict(base); b["probe"] = nm
                ops.append(with_id(b, i))
            for i in range(1, len(names)):
                ops.append({"op": "note", "twin": "ctl", "a": 0, "b": i})
            L = 8 * ((base["L"] + 7) // 8)
            for o in h[1:]:
                for i in range(len(names)):
                    ops.append(with_id(o, i))
                if o["op"] == "process":
                    for i in range(1, len(names)):
                        # |a - b| <= 2 * (4 points) * L * eps * sum|products| ~ 64 * L eps * peak (guard)
                        ops.append({"op": "cmp", "a": 0, "b": i, "bound": 64 * L})
            S.append(ops)
    return S


def check(prop, tier, seed, replay=None):
    t0 = time.time()
    rng = random.Random(seed)
    plan = PLANS[prop]
    wd = run.workdir(prop)
    run.build_harness()
    if replay:
        ok, out = run.replay_hard(replay, plan["twin"], wd, module="TraceTwin")
        if ok and plan.get("contract"):
            ok, out = run.replay_hard(replay, plan["contract"], wd)
        print(out[-3000:] if not ok else "replay: all predicates hold on " + replay)
        if not ok:
            print("VIOLATION property=%s replay=%s" % (prop, replay))
        return 0 if ok else 1
    cov = {"states": 0, "transitions": 0, "traces_validated_against_impl": 0, "samples": [],
           "model_runs": [], "scripts": {}}
    ls = [8, 16, 24, 32, 64] if tier == "quick" else [8, 16, 24, 32, 40, 48, 56, 64, 128, 256]
    fs = [1, 2, 3, 4, 16] if tier == "quick" else [1, 2, 3, 4, 5, 7, 16, 32, 64]
    res = model.check_model("Kernels", kernels_cfg(ls, fs, plan["model_inv"]), wd, prop + "-kernels", workers=4)
    if not res["ok"]:
        raise run.ToolError("Kernels.tla fails on its own: " + res["error"])
    cov["states"] += res["distinct"]
    cov["transitions"] += res["generated"]
    cov["model_runs"].append({"module": "Kernels", "Ls": ls, "FsK": fs, "distinct": res["distinct"],
                              "generated": res["generated"], "invariants": plan["model_inv"], "ok": True})
    S = (c08_scripts if prop == "C08" else c15_scripts)(rng, tier)
    cov["scripts"]["total"] = len(S)
    pairs = run.run_scripts(S, wd)
    r = run.validate_traces(pairs, plan["twin"], wd, module="TraceTwin", tag=prop)
    if prop == "C08":
        run.pair_stats(r, cov, prop)
    if plan.get("contract"):
        r2 = run.validate_traces(pairs, plan["contract"], wd, module="TraceContract", tag=prop + "c")
        r["viols"] += r2["viols"]
        r["states"] += r2["states"]
        r["transitions"] += r2["transitions"]
        cov["contract_antecedents"] = r2.get("counts", {})
        if r2.get("counts", {}).get("withTaus", 0) == 0:
            raise run.ToolError("vacuous: no call with evaluation instants in the C08 traces")
    cov["states"] += r["states"]
    cov["transitions"] += r["transitions"]
    cov["traces_validated_against_impl"] = r["traces"]
    cov["events_validated"] = r["events"]
    # which kernels were actually exercised on this host
    absent = set()
    for sp, tp in pairs[:50]:
        for e in run.read_trace(tp):
            if e.get("ev") == "kernel":
                for nm, d in zip(e["names"], e["dig"]):
                    if d == "absent":
                        absent.add(nm)
    cov["kernels_not_exercised_on_this_host"] = sorted(absent | {"neon32", "neon64"}) if prop == "C15" else []
    lines, nviol, seen = [], 0, set()
    for kind, name, script, line, ev, kfid in r["viols"]:
        if (script, name) in seen:
            continue
        seen.add((script, name))
        nviol += 1
        keep = run.save_replay(prop, script)
        lines.append("VIOLATION property=%s replay=%s predicate=%s line=%d" % (prop, keep, name, line))
    for sp, tp in pairs[:2]:
        evs = run.read_trace(tp)
        cov["samples"].append({"script": [json.loads(l) for l in open(sp)][:4],
                               "events": [{k: (e.get(k) if k not in ("taus", "vals") else e.get(k)[:4])
                                           for k in ("ev", "id", "res", "nout", "dig", "names", "outside_zero", "taus", "vals")
                                           if k in e} for e in evs[1:6]]})
    cov["predicates"] = plan["twin"] + plan["model_inv"] + plan.get("contract", [])
    cov["rule"] = ("states/transitions: TLC on Kernels.tla (symbolic execution of every kernel's loop and reduction for "
                   "each L; cardinal check of every coefficient table) plus TLC trace validation of one-hot runs")
    wall = time.time() - t0
    run.write_evidence(prop, tier, seed, "model_checking", cov, wall, nviol,
                       ["discrete core only: exact pairing of taps / cardinal polynomials at dyadic phases; rounding-level "
                        "claims are guarded by a numeric bound (TwinNear) and not decided by the specification",
                        "NEON kernels are modelled but cannot be executed on this x86-64 host"])
    for l in lines:
        print(l)
    print("%s %s: %d traces, %d events, %d states, %d violations, %.1fs" % (
        prop, tier, r["traces"], r["events"], cov["states"], nviol, wall))
    shutil.rmtree(wd, ignore_errors=True)
    return 1 if nviol else 0
