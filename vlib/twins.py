"""Twin properties: C05, C10, C11, C16, C17, C18 (trace validation against TraceTwin.tla)."""
import copy, json, os, random, time, shutil
from fractions import Fraction
from math import gcd
from . import gen, model, run, props

PLANS = {
    "C05": {"twin": ["TwinBlocks", "TwinTaus"], "single": ["C05_FftSmooth"]},
    "C10": {"twin": ["TwinFull"], "single": []},
    "C11": {"twin": ["TwinChan", "TwinCtl", "TwinFull"], "single": ["C11_MaskUntouched", "C03_CallOk"]},
    "C16": {"twin": ["TwinFull"], "single": ["C16_Flush", "C16_VecForward", "C16_WrapperShape"]},
    "C17": {"twin": ["TwinCtl", "TwinNear"], "single": []},
    "C18": {"twin": ["TwinFull"], "single": []},
}


def with_id(op, i):
    o = dict(op)
    o["id"] = i
    return o


def sig(n, rng):
    """test signal of a value-level twin: noise, or (30 %) noise with stretches of EXACT zeros that differ
    from channel to channel (code that short-cuts on silence must behave like code that does not)"""
    n["signal"] = "noise"
    if rng.random() < 0.3:
        n["signal"] = "burst"
        n["seg"] = rng.choice([max(1, n.get("chunk", 64)), 2 * max(1, n.get("chunk", 64)), 64, 500, 2048])
    return n


def calm(n):
    """keep fixed-input histories away from the known findings KF-D8a/c (large ratio steps)"""
    if n["kind"] in ("FastFixedIn", "SincFixedIn"):
        n["maxrel"] = {"p": 11, "q": 10}
    if n["kind"].startswith("Sinc") and n.get("F") == 1:
        n["F"] = 2
    return n


def suffix_ops(rng, n, count, allow=("ratio", "ramp", "chunk")):
    kind = n["kind"]
    ops = []
    maxrel = gen.frac_of(n["maxrel"]) if kind in gen.ASYNC else Fraction(1)
    orig = gen.frac_of(n["r"]) if kind in gen.ASYNC else Fraction(1)
    rels = gen.in_range_rels(maxrel)
    for _ in range(count):
        u = rng.random()
        if kind in gen.ASYNC and "ratio" in allow and u < 0.2:
            ops.append({"op": "set_ratio", "x": gen.rj(orig * rng.choice(rels)), "ramp": rng.random() < 0.5, "rel": False})
        elif kind.startswith("Sinc") and "chunk" in allow and u < 0.3:
            ops.append({"op": "set_chunk", "n": rng.randrange(1, n["chunk"] + 1)})
        else:
            ops.append({"op": "process"})
    return ops


# ------------------------------------------------------------------------------------------------
def c10_scripts(rng, tier, model_prefixes):
    S = []
    n_gen = {"quick": 80, "thorough": 400}[tier]
    for _ in range(n_gen):
        for kind in gen.KINDS:
            pre = gen.bad_history(rng, kind, rng.randrange(1, 14), small=rng.random() < 0.4)
            n = calm(pre[0])
            sig(n, rng)
            n.pop("probe", None)
            if rng.random() < 0.3 and n["ch"] > 1:
                m = [rng.random() < 0.6 for _ in range(n["ch"])]
                for o in pre[1:]:
                    if o["op"] in ("process", "partial"):
                        o["mask"] = m
            if rng.random() < 0.3:
                pre.append({"op": "partial", "id": 0, "k": rng.choice([-1, 1, 2])})
            suf = suffix_ops(rng, n, rng.randrange(3, 9))
            if n["ch"] > 1 and rng.random() < 0.5:
                # a change of size/ratio, a call with some channels inactive, then the same channels
                # active again: whatever the history left in the skipped channels' storage must not show
                m1 = [rng.random() < 0.5 for _ in range(n["ch"])]
                m1[rng.randrange(n["ch"])] = False
                m1[rng.randrange(n["ch"])] = True
                head = []
                if kind.startswith("Sinc"):
                    head.append({"op": "set_chunk", "n": rng.randrange(1, max(2, n["chunk"]))})
                head += [{"op": "process", "mask": m1}, {"op": "process"}, {"op": "process", "mask": [not x for x in m1]},
                         {"op": "process"}]
                suf = head + suf
            # "any subsequent call sequence": masks that change from call to call, wrappers, partial
            # calls - whatever the history left in channels that were inactive must not show
            if n["ch"] > 1 and rng.random() < 0.6:
                for o in suf:
                    if o["op"] == "process" and rng.random() < 0.7:
                        o["mask"] = [rng.random() < 0.5 for _ in range(n["ch"])]
            if rng.random() < 0.3:
                suf.append({"op": "partial", "k": rng.choice([-1, 1, 2])})
            if rng.random() < 0.4:
                # the first call after the reset is a rejected one (both twins make it)
                bad = {"op": "bad", "via": rng.choice(["into", "slices", "vec_into"])}
                bad.update(rng.choice([{"in_ch": 1}, {"out_ch": -1}, {"out_ch": 1}, {"in_ch": -1}, {"mask_len": 1}]))
                suf.insert(rng.choice([0, 0, 1]), bad)
            if rng.random() < 0.4:
                # the natural thing to do after a reset: re-apply the settings that were in force before it (the
                # same ratio request, the same chunk size) - a "nothing changed, skip" cache that survives the
                # reset swallows them (seeded change C10k)
                again = [o for o in pre[1:] if o["op"] in ("set_ratio", "set_chunk") and "cls" not in str(o.get("x", ""))]
                if again:
                    last = {k: v for k, v in again[-1].items() if k != "id"}
                    suf = [last] + suf
            ops = list(pre) + [{"op": "note", "twin": "full", "a": 0, "b": 1}, {"op": "reset", "id": 0}, with_id(n, 1)]
            for o in suf:
                ops += [with_id(o, 0), with_id(o, 1)]
            S.append(ops)
    # caller-supplied interpolators of odd length (new_with_interpolator): constructor vs reset (seeded change C10o)
    for _ in range(n_gen // 4):
        for kind in ("SincFixedIn", "SincFixedOut"):
            pre = gen.valid_history(rng, kind, rng.randrange(2, 8), allow=("ratio", "ramp", "chunk"),
                                    L=rng.choice([9, 15, 33, 7, 21]), Lraw=True, probe="linear", signal="index", ch=1)
            n = calm(pre[0])
            suf = [{"op": "process"} for _ in range(rng.randrange(2, 5))]
            ops = list(pre) + [{"op": "note", "twin": "full", "a": 0, "b": 1}, {"op": "reset", "id": 0}, with_id(n, 1)]
            for o in suf:
                ops += [with_id(o, 0), with_id(o, 1)]
            S.append(ops)
    # boundary configurations of the size computations (chunk x ratio an integer next to a power of two; huge
    # and block-aligned sizes): what the constructor computes vs what reset() restores (seeded change C10h)
    for _ in range(n_gen // 2):
        for kind in gen.ASYNC:
            pre = gen.integer_product_history(rng, kind)
            n = pre[0]
            sig(n, rng)
            n.pop("probe", None)
            suf = [{"op": "process"} for _ in range(rng.randrange(2, 5))]
            ops = list(pre) + [{"op": "note", "twin": "full", "a": 0, "b": 1}, {"op": "reset", "id": 0}, with_id(n, 1)]
            for o in suf:
                ops += [with_id(o, 0), with_id(o, 1)]
            S.append(ops)
    # every reachable control state of the as-is models as the history before the reset
    for ops0 in model_prefixes:
        n = dict(ops0[0])
        sig(n, rng)
        n.pop("probe", None)
        n["ch"] = rng.choice([1, 2, 3])
        pre = [n] + ops0[1:]
        if n["ch"] > 1:
            m0 = [rng.random() < 0.6 for _ in range(n["ch"])]
            pre = [n] + [dict(o, mask=m0) if o["op"] == "process" and rng.random() < 0.5 else o for o in ops0[1:]]
        suf = [{"op": "process"}, {"op": "process"}, {"op": "process"}]
        if n["ch"] > 1:
            suf = [dict(o, mask=[rng.random() < 0.5 for _ in range(n["ch"])]) if rng.random() < 0.6 else o for o in suf]
        ops = pre + [{"op": "note", "twin": "full", "a": 0, "b": 1}, {"op": "reset", "id": 0}, with_id(n, 1)]
        for o in suf:
            ops += [with_id(o, 0), with_id(o, 1)]
        S.append(ops)
    return S


def c16_scripts(rng, tier, model_prefixes):
    S = []
    n_gen = {"quick": 25, "thorough": 200}[tier]

    def wrap_pair(mask, ch):
        u = rng.random()
        a = {"op": "process"}
        b = {"op": "process", "via": "into"}
        if u < 0.3:
            a["via"] = rng.choice(["alloc", "vec_alloc", "vec_into", "slices"])
        elif u < 0.75:
            f = rng.choice([[1, 2], [1, 3], [2, 3], [1, 100], [99, 100], [1, 1]])
            a = {"op": "partial", "kf": f, "via": rng.choice(["into", "alloc", "vec_into", "vec_alloc"])}
            b["zf"] = f
        else:
            a = {"op": "partial", "k": -1, "via": rng.choice(["into", "alloc", "vec_into", "vec_alloc"])}
            b["zero_from"] = 0
        if a["op"] == "partial" and "kf" in a and ch > 1 and rng.random() < 0.4:
            # ragged partial chunk: every channel brings its own number of frames (1..8 here, always
            # below input_frames_next for the chunk sizes used); the twin pads each channel with zeros
            ks = [rng.randrange(1, 9) for _ in range(ch)]
            a.pop("kf"); b.pop("zf")
            a["kpc"] = ks; a["k"] = max(ks)
            b["zpc"] = ks; b["zero_from"] = max(ks)
        if mask is not None:
            a["mask"] = mask
            b["mask"] = mask
            if not any(mask):
                a["via"] = "into" if a["op"] == "partial" else "vec_into"
            elif rng.random() < 0.5 and a.get("via", "into") in ("into", "vec_into", "slices"):
                a["empty_masked"] = True     # inactive channels passed as empty slices
        return a, b

    def build(n, pre_common, steps):
        mask = None
        if n["ch"] > 1 and rng.random() < 0.4:
            mask = [rng.random() < 0.6 for _ in range(n["ch"])]
        ops = [with_id(n, 0), with_id(n, 1), {"op": "note", "twin": "full", "a": 0, "b": 1}]
        for o in pre_common:
            if o["op"] in ("process", "partial") and mask is not None:
                o = dict(o)
                o["mask"] = mask
            ops += [with_id(o, 0), with_id(o, 1)]
        for _ in range(steps):
            if rng.random() < 0.2:
                for o in suffix_ops(rng, n, 1, allow=("ratio", "ramp", "chunk")):
                    if o["op"] != "process":
                        oa = dict(o)
                        if o["op"] == "set_ratio" and rng.random() < 0.6:
                            oa["via"] = "vec"          # through the VecResampler wrapper
                        ops += [with_id(oa, 0), with_id(o, 1)]
                continue
            if rng.random() < 0.15:
                ops += [{"op": "getters", "id": 0}, {"op": "getters", "id": 1}]
            a, b = wrap_pair(mask, n["ch"])
            ops += [with_id(a, 0), with_id(b, 1)]
        return ops

    for _ in range(n_gen):
        for kind in gen.KINDS:
            n = calm(gen.new_op(rng, kind, small=rng.random() < 0.4))
            sig(n, rng)
            n.pop("probe", None)
            S.append(build(n, [], rng.randrange(4, 12)))
    for ops0 in model_prefixes:
        n = dict(ops0[0])
        sig(n, rng)
        n.pop("probe", None)
        S.append(build(n, ops0[1:], 4))
    # partial calls around swings of the input need (ratio up/down on the fixed-output types, chunk size
    # down/up on the sinc types): whatever a wrapper keeps between partial calls (a padded scratch, a fill
    # counter) is sized for the previous need (seeded change C16d)
    for _ in range(n_gen):
        for kind in ("SincFixedOut", "FastFixedOut", "SincFixedIn", "SincFixedOut"):
            n = gen.new_op(rng, kind, small=False)
            n["maxrel"] = gen.rj(Fraction(4)) if kind.endswith("Out") else gen.rj(Fraction(11, 10))
            n["r"] = gen.rj(rng.choice([Fraction(1), Fraction(1, 2), Fraction(3, 2)]))
            n["chunk"] = rng.choice([64, 256, 1024])
            if kind.startswith("Sinc") and n.get("F") == 1:
                n["F"] = 2
            sig(n, rng)
            n.pop("probe", None)
            n["ch"] = rng.choice([1, 2])
            orig = gen.frac_of(n["r"])
            ops = [with_id(n, 0), with_id(n, 1), {"op": "note", "twin": "full", "a": 0, "b": 1}]

            def both(o):
                return [with_id(o, 0), with_id(o, 1)]

            def part(f):
                via = rng.choice(["into", "alloc", "vec_into"])
                if f is None:
                    return [{"op": "partial", "id": 0, "k": -1, "via": via}, {"op": "process", "id": 1, "zero_from": 0}]
                return [{"op": "partial", "id": 0, "kf": f, "via": via}, {"op": "process", "id": 1, "zf": f}]

            for _k in range(rng.randrange(1, 4)):
                ops += both({"op": "process"})
            for _round in range(rng.randrange(1, 4)):
                ops += part(rng.choice([[99, 100], [1, 1], [2, 3]]))
                if kind.endswith("Out") and rng.random() < 0.7:
                    ops += both({"op": "set_ratio", "x": gen.rj(orig * rng.choice([2, 3, 4])), "ramp": rng.random() < 0.5,
                                 "rel": False})
                    back = {"op": "set_ratio", "x": gen.rj(orig / rng.choice([1, 2])), "ramp": rng.random() < 0.5, "rel": False}
                elif kind.startswith("Sinc"):
                    ops += both({"op": "set_chunk", "n": rng.choice([1, 7, max(1, n["chunk"] // 8)])})
                    back = {"op": "set_chunk", "n": n["chunk"]}
                else:
                    back = {"op": "getters"}
                ops += part(rng.choice([None, [1, 2], [1, 100]]))
                ops += both(back)
                for _k in range(rng.randrange(1, 3)):
                    ops += part(None)
            S.append(ops)
    # flushing: constant ratio, some audio, then None calls until the tail must be out (C16_Flush);
    # the core twin processes explicit zero chunks
    for _ in range(n_gen):
        for kind in gen.KINDS:
            n = calm(gen.new_op(rng, kind, small=rng.random() < 0.5))
            sig(n, rng)
            n.pop("probe", None)
            n["ch"] = rng.choice([1, 2])
            ops = [with_id(n, 0), with_id(n, 1), {"op": "note", "twin": "full", "a": 0, "b": 1}]
            for _k in range(rng.randrange(1, 6)):
                ops += [{"op": "process", "id": 0}, {"op": "process", "id": 1}]
            f = rng.choice([[1, 2], [1, 3], [2, 3]])
            ops += [{"op": "partial", "id": 0, "kf": f, "via": rng.choice(["into", "alloc"])},
                    {"op": "process", "id": 1, "zf": f}]
            L = 8 if kind.startswith("Fast") else (n.get("L", 8) if kind in gen.ASYNC else 0)
            for _k in range(60):
                ops += [{"op": "partial", "id": 0, "k": -1, "via": rng.choice(["into", "alloc", "vec_into"])},
                        {"op": "process", "id": 1, "zero_from": 0}]
            S.append(ops)
    return S


def near_bound(n):
    """numeric guard of C17: |f32 - f64| in units of f32 epsilon * signal peak. Measured on the unchanged
    tree: <= 0.7*L units for the sinc types (L = sinc_len), <= 3 polynomial, <= 15 FFT; bound ~8x that."""
    if n["kind"].startswith("Sinc"):
        return 64 + 4 * (8 * ((n.get("L", 8) + 7) // 8))
    if n["kind"].startswith("Fast"):
        return 64
    return 256


def c17_scripts(rng, tier, model_prefixes):
    S = []
    n_gen = {"quick": 80, "thorough": 400}[tier]
    for _ in range(n_gen):
        for kind in gen.KINDS:
            h = gen.valid_history(rng, kind, rng.randrange(6, 30), small=rng.random() < 0.3,
                                  allow=("ratio", "ramp", "chunk", "reset", "via"))
            n = calm(h[0])
            sig(n, rng)
            n.pop("probe", None)
            n["signal"] = rng.choice(["noise", "big"])
            a, b = dict(n), dict(n)
            a["T"], b["T"] = 32, 64
            ops = [with_id(a, 0), with_id(b, 1), {"op": "note", "twin": "ctl", "a": 0, "b": 1}]
            for o in h[1:]:
                ops += [with_id(o, 0), with_id(o, 1)]
                if o["op"] == "process":
                    ops.append({"op": "cmp", "a": 0, "b": 1, "bound": near_bound(n)})
            S.append(ops)
    for ops0 in model_prefixes:
        n = dict(ops0[0])
        sig(n, rng)
        n.pop("probe", None)
        a, b = dict(n), dict(n)
        a["T"], b["T"] = 32, 64
        ops = [with_id(a, 0), with_id(b, 1), {"op": "note", "twin": "ctl", "a": 0, "b": 1}]
        for o in ops0[1:] + [{"op": "process"}]:
            ops += [with_id(o, 0), with_id(o, 1)]
        S.append(ops)
    return S


def c11_scripts(rng, tier, model_prefixes):
    S = []
    n_gen = {"quick": 70, "thorough": 400}[tier]

    def build(n, nch, mask, common):
        A = dict(n); A["ch"] = nch
        ops = [with_id(A, 0), with_id(A, 1)]
        active = [c for c in range(nch) if mask[c]]
        singles = {}
        for k, c in enumerate(active):
            b = dict(n); b["ch"] = 1; b["chbase"] = c
            singles[c] = 2 + k
            ops.append(with_id(b, 2 + k))
        ops.append({"op": "note", "twin": "ctl", "a": 0, "b": 1})          # masked vs unmasked: counts, getters
        for c, i in singles.items():
            ops.append({"op": "note", "twin": "chan", "a": 1, "b": i, "c": c})   # unmasked n-channel vs single
        for o in common:
            om = dict(o)
            if o["op"] in ("process", "partial"):
                om["mask"] = mask
                om["via"] = "into"
                if rng.random() < 0.5:
                    om["empty_masked"] = True
            ops.append(with_id(om, 0))
            ops.append(with_id(o, 1))
            for c, i in singles.items():
                ops.append(with_id(o, i))
        # masked instance vs the singles as well (second relation set, declared on fresh records is
        # not possible without clearing: use a second n-channel masked instance)
        return ops

    def build2(n, nch, mask, common):
        """masked n-channel instance vs single-channel twins of its active channels"""
        A = dict(n); A["ch"] = nch
        ops = [with_id(A, 0)]
        active = [c for c in range(nch) if mask[c]]
        singles = {}
        for k, c in enumerate(active):
            b = dict(n); b["ch"] = 1; b["chbase"] = c
            singles[c] = 1 + k
            ops.append(with_id(b, 1 + k))
        for c, i in singles.items():
            ops.append({"op": "note", "twin": "chan", "a": 0, "b": i, "c": c})
        for o in common:
            om = dict(o)
            if o["op"] in ("process", "partial"):
                om["mask"] = mask
                om["via"] = "into"
                if rng.random() < 0.5:
                    om["empty_masked"] = True
            ops.append(with_id(om, 0))
            for c, i in singles.items():
                ops.append(with_id(o, i))
        return ops

    def build3(n, nch, common):
        """masks that change from call to call (all-off calls included): channel c of the n-channel instance
        vs a single-channel twin that is active exactly when channel c is - a channel's stream must not
        depend on the OTHER channels' mask bits (seeded change C11g)"""
        A = dict(n); A["ch"] = nch
        ops = [with_id(A, 0)]
        for c in range(nch):
            b = dict(n); b["ch"] = 1; b["chbase"] = c
            ops.append(with_id(b, 1 + c))
        for c in range(nch):
            ops.append({"op": "note", "twin": "chan", "a": 0, "b": 1 + c, "c": c})
        for o in common:
            if o["op"] in ("process", "partial"):
                u = rng.random()
                m = ([False] * nch if u < 0.15 else [True] * nch if u < 0.3 else [rng.random() < 0.6 for _ in range(nch)])
                om = dict(o); om["mask"] = m; om["via"] = "into"
                ops.append(with_id(om, 0))
                for c in range(nch):
                    oc = dict(o); oc["mask"] = [m[c]]; oc["via"] = "into"
                    ops.append(with_id(oc, 1 + c))
            else:
                ops.append(with_id(o, 0))
                for c in range(nch):
                    ops.append(with_id(o, 1 + c))
        return ops

    for _ in range(n_gen // 2):
        for kind in gen.KINDS:
            h = gen.valid_history(rng, kind, rng.randrange(6, 16), small=rng.random() < 0.6,
                                  allow=("ratio", "ramp", "chunk", "reset"))
            n = calm(h[0])
            sig(n, rng)
            n.pop("probe", None)
            n["T"] = rng.choice([32, 64])
            common = [{k: v for k, v in o.items() if k not in ("mask", "empty_masked")} for o in h[1:]]
            S.append(build3(n, rng.randrange(2, 5), common))

    def build5(n, nch, common):
        """`None` means "all channels active": an instance that is called without a mask whenever all channels
        are active must equal one that is always given an explicit mask (all true in those calls), whatever masks
        came before (seeded change C11m)"""
        A = dict(n); A["ch"] = nch
        ops = [with_id(A, 0), with_id(A, 1), {"op": "note", "twin": "full", "a": 0, "b": 1}]
        for o in common:
            if o["op"] in ("process", "partial"):
                u = rng.random()
                m = ([True] * nch if u < 0.5 else [rng.random() < 0.6 for _ in range(nch)])
                oa = dict(o); ob = dict(o)
                oa["via"] = ob["via"] = "into"
                ob["mask"] = m
                if not all(m) or rng.random() < 0.5:
                    oa["mask"] = m           # instance 0 mixes None and Some(all true) for "all active"
                ops += [with_id(oa, 0), with_id(ob, 1)]
            else:
                ops += [with_id(o, 0), with_id(o, 1)]
        return ops

    for _ in range(n_gen // 3):
        for kind in gen.KINDS:
            h = gen.valid_history(rng, kind, rng.randrange(8, 18), small=rng.random() < 0.5,
                                  allow=("ratio", "ramp", "chunk", "reset"))
            n = calm(h[0])
            sig(n, rng)
            n.pop("probe", None)
            n["T"] = rng.choice([32, 64])
            common = [{k: v for k, v in o.items() if k not in ("mask", "empty_masked", "via")} for o in h[1:]]
            S.append(build5(n, rng.randrange(2, 5), common))

    def build4(n, nch, common):
        """dual mono: in some calls several channels are handed the very SAME input slice (same address); each
        channel must still equal a single-channel twin that is fed the same data (seeded change C11l)"""
        A = dict(n); A["ch"] = nch
        ops = [with_id(A, 0)]
        for c in range(nch):
            b = dict(n); b["ch"] = 1; b["chbase"] = c
            ops.append(with_id(b, 1 + c))
        for c in range(nch):
            ops.append({"op": "note", "twin": "chan", "a": 0, "b": 1 + c, "c": c})
        for o in common:
            if o["op"] == "process":
                alias = list(range(nch))
                if rng.random() < 0.5:
                    src = rng.randrange(nch)
                    for c in range(nch):
                        if rng.random() < 0.7:
                            alias[c] = src
                om = dict(o); om["via"] = "slices"; om["alias_to"] = alias
                ops.append(with_id(om, 0))
                for c in range(nch):
                    oc = dict(o); oc["via"] = "slices"; oc["chbase"] = alias[c]
                    ops.append(with_id(oc, 1 + c))
            else:
                ops.append(with_id(o, 0))
                for c in range(nch):
                    ops.append(with_id(o, 1 + c))
        return ops

    for _ in range(n_gen // 3):
        for kind in gen.KINDS:
            h = gen.valid_history(rng, kind, rng.randrange(5, 12), small=rng.random() < 0.5,
                                  allow=("ratio", "ramp", "chunk", "reset"))
            n = calm(h[0])
            n["signal"] = "noise"
            n.pop("probe", None)
            n["T"] = rng.choice([32, 64])
            common = [{k: v for k, v in o.items() if k not in ("mask", "empty_masked", "via", "out", "in_extra", "out_extra")}
                      for o in h[1:]]
            S.append(build4(n, rng.randrange(2, 4), common))
    for _ in range(n_gen):
        for kind in gen.KINDS:
            h = gen.valid_history(rng, kind, rng.randrange(4, 14), small=rng.random() < 0.5,
                                  allow=("ratio", "ramp", "chunk", "reset") + (("partial",) if rng.random() < 0.5 else ()))
            n = calm(h[0])
            sig(n, rng)
            if rng.random() < 0.4:
                # stretches of EXACT zeros that differ from channel to channel, some channels silent throughout
                # (anything that short-cuts on silence must do so per channel - seeded change C11f)
                n["signal"] = "burst"
                n["seg"] = rng.choice([n["chunk"], 2 * n["chunk"], 3 * n["chunk"] + 7, 500, 64])
            n.pop("probe", None)
            n["T"] = rng.choice([32, 64])
            if kind.startswith("Sinc") and rng.random() < 0.4:
                # consecutive output frames between the same intermediate points / on the same input index
                n["F"] = rng.choice([2, 4])
                n["r"] = gen.rj(rng.choice([Fraction(8), Fraction(16), Fraction(13, 3), Fraction(6), Fraction(5)]))
                n["chunk"] = min(n["chunk"], 64)
            nch = rng.randrange(1, 9)
            mask = [rng.random() < 0.6 for _ in range(nch)]
            if rng.random() < 0.1:
                mask = [False] * nch
            if rng.random() < 0.1:
                mask = [True] * nch
            common = [o for o in h[1:] if "mask" not in o]
            for o in common:
                o.pop("empty_masked", None)
            S.append((build if rng.random() < 0.5 else build2)(n, nch, mask, common))
    # every channel masked out, for many calls: the counts and getters must follow the unmasked run
    for rep in range({"quick": 40, "thorough": 200}[tier]):
        # the types whose counts vary from call to call get most of the budget
        for kind in (gen.KINDS if rep % 5 == 0 else ["FastFixedOut", "SincFixedOut", "FftFixedOut", "FftFixedIn"]):
            h = gen.valid_history(rng, kind, rng.randrange(30, 70), small=rng.random() < 0.3,
                                  allow=("ratio", "ramp", "chunk") if rng.random() < 0.5 else ())
            n = calm(h[0])
            sig(n, rng)
            n.pop("probe", None)
            nch = rng.randrange(1, 4)
            A = dict(n); A["ch"] = nch
            ops = [with_id(A, 0), with_id(A, 1), {"op": "note", "twin": "ctl", "a": 0, "b": 1}]
            for o in h[1:]:
                o = {k: v for k, v in o.items() if k not in ("mask", "empty_masked")}
                om = dict(o)
                if o["op"] == "process":
                    om["mask"] = [False] * nch
                    om["via"] = "into"
                    if rng.random() < 0.5:
                        om["empty_masked"] = True
                ops += [with_id(om, 0), with_id(o, 1)]
            S.append(ops)
    # all 2^n masks for n <= 3 on a few model-generated histories
    for ops0 in model_prefixes[: {"quick": 40, "thorough": 400}[tier]]:
        n = dict(ops0[0])
        sig(n, rng)
        n.pop("probe", None)
        nch = rng.randrange(1, 4)
        mask = [bool((rng.randrange(1 << nch) >> c) & 1) for c in range(nch)]
        S.append(build2(n, nch, mask, ops0[1:] + [{"op": "process"}]))
    return S


def c18_scripts(rng, tier, schedules):
    """schedules: list of [[inst, thread], ...] from Fleet.tla"""
    S = []
    kinds = gen.KINDS
    for sched in schedules:
        ninst = max(s[0] for s in sched)
        # every instance gets the same parameters and the same call list; instance 0 is the
        # single-threaded reference that runs first
        kind = rng.choice(kinds)
        h = gen.valid_history(rng, kind, 12, small=rng.random() < 0.6, allow=("ratio", "ramp", "chunk", "reset"))
        n = calm(h[0])
        sig(n, rng)
        n.pop("probe", None)
        calls = [o for o in h[1:]]
        K = sum(1 for s in sched if s[0] == 1)
        calls = (calls + [{"op": "process"}] * K)[:K]
        # relations are declared first: a declaration clears what was recorded for its instances
        ops = [{"op": "note", "twin": "full", "a": 0, "b": i} for i in range(1, ninst + 1)]
        ops += [with_id(n, 0)] + [with_id(o, 0) for o in calls]
        # constructors: concurrently (planner caches, cpu detection race)
        ops.append({"op": "par_begin"})
        for i in range(1, ninst + 1):
            o = with_id(n, i)
            o["thread"] = i
            ops.append(o)
        ops.append({"op": "par_end"})
        # NB: the reference's obs start with its "new"; the twins' with theirs (declared before)
        pcs = {i: 0 for i in range(1, ninst + 1)}
        # maximal runs of steps with pairwise distinct instances and threads run concurrently
        k = 0
        while k < len(sched):
            group = [sched[k]]
            j = k + 1
            while j < len(sched) and all(sched[j][0] != g[0] and sched[j][1] != g[1] for g in group):
                group.append(sched[j])
                j += 1
            if len(group) > 1:
                ops.append({"op": "par_begin"})
            for inst, thr in group:
                o = with_id(calls[pcs[inst]], inst)
                o["thread"] = thr
                pcs[inst] += 1
                ops.append(o)
            if len(group) > 1:
                ops.append({"op": "par_end"})
            k = j
        S.append(ops)
    # hidden process-wide / per-thread state: a reference run, then an unrelated resampler of another
    # family is constructed and used on the same thread, then the twin run. Signals fade through the
    # subnormal range to zero (floating-point environment, denormal handling), both sample types.
    for _ in range({"quick": 80, "thorough": 600}[tier]):
        kind = rng.choice(kinds)
        other = rng.choice([k for k in kinds if k[:3] != kind[:3]] + ["SincFixedIn", "SincFixedOut"])
        h = gen.valid_history(rng, kind, 1, small=False, allow=())
        n = calm(h[0])
        n["signal"] = "fade"
        n["ch"] = 1
        n.pop("probe", None)
        n["T"] = rng.choice([32, 32, 64])
        if kind in gen.ASYNC:
            n["chunk"] = rng.choice([64, 100, 256])
        need = 420 if n["T"] == 32 else 2300
        per_in = n["chunk"]
        if kind in ("FastFixedOut", "SincFixedOut"):
            per_in = max(1, int(n["chunk"] / float(gen.frac_of(n["r"]))))
        if kind == "FftFixedOut":
            per_in = max(1, n["chunk"] * n["fs_in"] // n["fs_out"])
        calls = [{"op": "process"}] * min(400, need // max(1, per_in) + 3)
        # unrelated resamplers constructed (and used once) on the same thread in between: another family,
        # and - process-wide or per-thread caches keyed too coarsely - the SAME family with related
        # parameters (same input rate / block size, other output rate; other filter length, ...)
        inter = []
        o = gen.new_op(rng, other)
        o.pop("probe", None)
        sig(o, rng)
        o["ch"] = 1
        inter.append(o)
        rel = dict(n)
        if kind in gen.FFT:
            from math import gcd as _g
            # same input block size, other output rate: output rates with the same reduced input rate
            a0 = n["fs_in"] // _g(n["fs_in"], n["fs_out"])
            cands = [x for x in gen.RATES + list(range(1, 40)) + [n["fs_out"] * 2, n["fs_out"] * 3, n["fs_out"] + 1]
                     if x != n["fs_out"] and n["fs_in"] // _g(n["fs_in"], x) == a0
                     and max(n["fs_in"], x) // _g(n["fs_in"], x) <= 2000]
            if n["kind"] == "FftFixedOut" or not cands:
                rel["kind"] = rng.choice(gen.FFT)
                rel["fs_out"] = (rng.choice(cands) if cands else n["fs_out"] * 2)
            else:
                rel["fs_out"] = rng.choice(cands)
        elif kind.startswith("Sinc"):
            rel["L"] = rng.choice([8, 16, 32, 64, 128, 256])
            rel["F"] = rng.choice([2, 4, 16, 128, 3, 160])
            rel["window"] = rng.choice(gen.WINDOWS)
            rel["r"] = gen.rj(rng.choice(gen.RATIOS))
        else:
            rel["degree"] = rng.choice(gen.DEGREES)
            rel["r"] = gen.rj(rng.choice(gen.RATIOS))
        if rng.random() < 0.4:
            # the reference's own configuration with its table / block length scaled by a small factor, odd
            # factors included (a cache that serves a shorter table from a longer one - seeded change C18d)
            k = rng.choice([3, 5, 6, 2, 7, 3])
            rel = dict(n)
            if kind in gen.FFT:
                rel["chunk"] = n["chunk"] * k
            elif kind.startswith("Sinc"):
                if rng.random() < 0.5 and n.get("L", 8) * k <= 1024:
                    rel["L"] = 8 * ((n.get("L", 8) + 7) // 8) * k
                else:
                    rel["F"] = n.get("F", 2) * k
            else:
                rel["chunk"] = n["chunk"] * k
        sig(rel, rng)
        inter.append(rel)
        ops = [{"op": "note", "twin": "full", "a": 0, "b": 1}]
        # the related one is sometimes built BEFORE the reference as well (construction order matters)
        if rng.random() < 0.5:
            ops += [with_id(inter[1], 10), {"op": "process", "id": 10}]
            if rng.random() < 0.5:
                # ... and dropped again before the reference exists (anything pooled or recycled between
                # instances - seeded change C18f); sometimes it is the reference's very own configuration
                if rng.random() < 0.5:
                    ops[-2] = with_id(dict(n), 10)
                ops += [{"op": "process", "id": 10}, {"op": "drop", "id": 10}]
            inter = inter[:1] + [dict(inter[1])]
        ops += [with_id(n, 0)] + [with_id(c, 0) for c in calls]
        for j, o2 in enumerate(inter):
            if rng.random() < 0.8:
                ops += [with_id(o2, 9 + 2 * j), {"op": "process", "id": 9 + 2 * j}]
        mig = rng.random() < 0.5
        tw = with_id(n, 1)
        if rng.random() < 0.5:
            tw["thread"] = rng.randrange(1, 4)      # constructed on a fresh thread (empty thread-local state)
        ops.append(tw)
        for c in calls:
            c2 = with_id(c, 1)
            if mig:
                c2["thread"] = rng.randrange(1, 4)
            ops.append(c2)
        S.append(ops)
    # free running: many threads x instances, everything concurrent
    for _ in range({"quick": 30, "thorough": 200}[tier]):
        kind = rng.choice(kinds)
        h = gen.valid_history(rng, kind, 10, small=rng.random() < 0.5, allow=("ratio", "ramp", "chunk", "reset"))
        n = calm(h[0])
        sig(n, rng)
        n.pop("probe", None)
        calls = h[1:]
        nthr = rng.choice([4, 8, 14])
        ops = [{"op": "note", "twin": "full", "a": 0, "b": i} for i in range(1, nthr + 1)]
        ops += [with_id(n, 0)] + [with_id(o, 0) for o in calls]
        ops.append({"op": "par_begin"})
        for i in range(1, nthr + 1):
            o = with_id(n, i); o["thread"] = i
            ops.append(o)
            for c in calls:
                o = with_id(c, i); o["thread"] = i
                ops.append(o)
        ops.append({"op": "par_end"})
        S.append(ops)
    # nearly equal configurations on one thread (wave 21, seeded change C18g: a per-thread table cache whose
    # key compares the cutoff with a tolerance): a downsampling sinc resampler and a second one whose ratio -
    # hence effective cutoff - differs by a few 1e-5, built before and/or after the reference on the same
    # thread; the twin is built last, on the same or on a fresh thread. Drawn after every other family so
    # that the scripts above are unchanged.
    for _ in range({"quick": 60, "thorough": 300}[tier]):
        kind = rng.choice(["SincFixedIn", "SincFixedOut"])
        h = gen.valid_history(rng, kind, 1, small=False, allow=())
        n = calm(h[0])
        sig(n, rng)
        n.pop("probe", None)
        n.pop("Lraw", None)
        n["ch"] = 1
        n["chunk"] = rng.choice([64, 100, 256])
        n["r"] = gen.rj(rng.choice([Fraction(1, 2), Fraction(2, 3), Fraction(3, 4), Fraction(147, 160), Fraction(1, 4)]))
        rel = dict(n)
        rel["r"] = {"bits": gen.bits(float(gen.frac_of(n["r"])) * (1 + rng.choice([2e-5, 5e-5, 8e-5, -3e-5, 1e-6])))}
        calls = [{"op": "process"}] * 5
        before = rng.random() < 0.5
        ops = [{"op": "note", "twin": "full", "a": 0, "b": 1}]
        if before:
            ops += [with_id(rel, 10), {"op": "process", "id": 10}]
        ops += [with_id(n, 0)] + [with_id(c, 0) for c in calls]
        if not before or rng.random() < 0.5:
            ops += [with_id(dict(rel), 11), {"op": "process", "id": 11}]
        tw = with_id(n, 1)
        if rng.random() < 0.4:
            tw["thread"] = rng.randrange(1, 4)
        ops.append(tw)
        ops += [with_id(c, 1) for c in calls]
        S.append(ops)
    return S


def c05_scripts(rng, tier):
    S = []
    n_gen = {"quick": 40, "thorough": 300}[tier]
    # ---- FFT: every adapter and every (chunk, sub) pair that resolves to the same block size
    for _ in range(n_gen):
        a, b = rng.choice([(1, 2), (2, 1), (3, 2), (2, 3), (147, 160), (160, 147), (1, 1), (4, 1), (3, 7),
                           (44100, 48000), (48000, 44100), (5, 4), (1, 3)])
        g = gcd(a, b)
        ra, rb = a // g, b // g
        k = rng.randrange(1, 6) if max(ra, rb) > 50 else rng.randrange(1, 40)
        T = rng.choice([32, 64])
        insts = []
        for _ in range(rng.randrange(2, 5)):
            kind = rng.choice(gen.FFT)
            sub = 1 if kind == "FftFixedInOut" else rng.choice([1, 1, 2, 3])
            unit = rb if kind == "FftFixedOut" else ra
            w = rng.randrange((k - 1) * unit + 1, k * unit + 1)       # wanted sub-size resolving to k blocks
            chunk = w * sub + (rng.randrange(sub) if sub > 1 else 0)
            insts.append({"op": "new", "kind": kind, "T": T, "ch": 1, "fs_in": a, "fs_out": b, "chunk": chunk,
                          "sub": sub, "signal": "noise", "seed": 99, "blk": 16})
        ops = [with_id(n, i) for i, n in enumerate(insts)]
        for i in range(1, len(insts)):
            ops.append({"op": "note", "twin": "blocks", "a": 0, "b": i})
        total = 6 * k * rb + 200
        for i, n in enumerate(insts):
            per = (max(1, n["chunk"] * rb // ra) if n["kind"] != "FftFixedOut" else n["chunk"])
            for _ in range(min(400, total // per + 2)):
                o = {"op": "process", "id": i}
                # the stream must not depend on how long the caller's output buffer is
                u = rng.random()
                if u < 0.25:
                    o["out"] = "max"
                elif u < 0.4:
                    o["out_extra"] = rng.randrange(1, 2000)
                if rng.random() < 0.2:
                    o["out_fill"] = "garbage"      # a reused buffer: must be overwritten, never read or added to
                ops.append(o)
        S.append(ops)
    # ---- FFT, without a twin (all variants share resample_unit: a defect there is the same in every
    #      chunking): the index signal must come out as a linear function (Contract C05_FftSmooth)
    for _ in range(n_gen):
        for kind in gen.FFT:
            h = gen.valid_history(rng, kind, rng.randrange(12, 40), allow=("reset", "via"), signal="index", T=64,
                                  ch=rng.choice([1, 1, 2]), taus_cap=100000)
            S.append(h)
    # ---- async: constant ratio, different chunkings / variants: same evaluation instants
    for it in range(n_gen + n_gen // 2):
        frame_end = it >= n_gen        # the extra rounds: polynomial types whose chunks end on whole input frames
        fam = "Fast" if frame_end else rng.choice(["Fast", "Sinc"])
        r = rng.choice(gen.RATIOS)
        base = {"op": "new", "T": 64, "ch": 1, "r": gen.rj(r), "maxrel": gen.rj(Fraction(2)), "signal": "index",
                "seed": 5, "taus_cap": 100000}
        if fam == "Fast":
            base["degree"] = rng.choice(["Septic", "Quintic", "Cubic", "Linear", "Nearest"])
            if frame_end:
                base["degree"] = rng.choice(["Nearest", "Nearest", "Linear"])
            if frame_end or rng.random() < 0.3:
                # chunks that end exactly on an input frame although the step is not representable in binary
                r = rng.choice([Fraction(6), Fraction(20, 3), Fraction(9, 8), Fraction(25, 7), Fraction(5, 9), Fraction(3)])
                base["r"] = gen.rj(r)
        else:
            base.update({"L": rng.choice([8, 16, 64]), "F": rng.choice([2, 4, 16, 128, 3, 100]),
                         "interp": rng.choice(["Cubic", "Quadratic", "Linear", "Nearest"]), "probe": "linear"})
            if rng.random() < 0.3:
                # positions that fall exactly half-way between two sub-filters (step = odd / 2F): ties of the
                # nearest-point selection, at negative and positive positions alike (seeded change C05g)
                F = rng.choice([2, 4, 16, 128])
                odd = rng.choice([1, 3, 5, 7, 9, 13])
                while Fraction(2 * F, odd) > 16 or Fraction(2 * F, odd) < Fraction(1, 16):
                    F, odd = rng.choice([2, 4, 16]), rng.choice([1, 3, 5, 7, 9, 13, 27, 53])
                base["F"] = F
                base["interp"] = rng.choice(["Nearest", "Nearest", "Linear", "Quadratic", "Cubic"])
                base["r"] = gen.rj(Fraction(2 * F, odd))
                r = Fraction(2 * F, odd)
        insts = []
        for j in range(rng.randrange(2, 5)):
            n = dict(base)
            n["kind"] = fam + rng.choice(["FixedIn", "FixedOut"])
            if frame_end:
                n["kind"] = fam + ("FixedOut" if j % 2 == 0 else "FixedIn")
            n["chunk"] = rng.choice([1, 2, 3, 7, 16, 33, 64, 100, 256])
            if fam == "Fast" and Fraction(r) in (Fraction(6), Fraction(20, 3), Fraction(9, 8), Fraction(25, 7),
                                                 Fraction(5, 9), Fraction(3)):
                n["chunk"] = rng.choice([480, 96, 60, 7, 9, 45, 25, 300, 6])
            insts.append(n)
        ops = [with_id(n, i) for i, n in enumerate(insts)]
        # nearest-point selection: where the positions are not exact in binary (step not dyadic), two chunkings
        # may legitimately resolve a tie differently - one quantum of the sub-filter grid
        tol = 0
        if base.get("interp") == "Nearest" or base.get("degree") == "Nearest":
            d = (1 / Fraction(r)).denominator
            if d & (d - 1):
                tol = (1 << 20) // base.get("F", 1) + 1
        for i in range(1, len(insts)):
            ops.append({"op": "note", "twin": "taus", "a": 0, "b": i, "c": tol})
        want_out = 400
        for i, n in enumerate(insts):
            per_out = max(1.0, n["chunk"] * float(r)) if n["kind"].endswith("In") else n["chunk"]
            calls = int(min(600, want_out / per_out + (base.get("L", 8) * 3) / max(1, n["chunk"]) + 4))
            for c in range(calls):
                if fam == "Sinc" and rng.random() < 0.15:
                    for _r in range(rng.choice([1, 1, 2, 3])):      # also several requests in a row
                        ops.append({"op": "set_chunk", "id": i, "n": rng.randrange(1, n["chunk"] + 1)})
                o = {"op": "process", "id": i}
                u = rng.random()
                if u < 0.2:
                    o["out"] = "max"
                elif u < 0.3:
                    o["out_extra"] = rng.randrange(1, 300)
                ops.append(o)
        S.append(ops)
    # ---- async, VALUES through the real kernels: at ratios 2^k every position is exact in binary, so all
    #      chunkings and both variants evaluate the same instants on the same samples and the output streams
    #      are bit-identical (TwinBlocks: digests of 16-frame blocks of the stream). Signals with stretches of
    #      exact zeros included (anything that short-cuts on silence - seeded change C05h).
    for _ in range(n_gen):
        fam = rng.choice(["Fast", "Sinc"])
        r = rng.choice([Fraction(1), Fraction(2), Fraction(4), Fraction(1, 2), Fraction(1, 4), Fraction(8), Fraction(1)])
        base = {"op": "new", "T": rng.choice([32, 64]), "ch": rng.choice([1, 2]), "r": gen.rj(r),
                "maxrel": gen.rj(Fraction(2)), "signal": rng.choice(["noise", "burst", "burst"]), "seed": 11,
                "blk": 16, "seg": rng.choice([64, 300, 1024, 2048])}
        if fam == "Fast":
            base["degree"] = rng.choice(gen.DEGREES)
        else:
            base.update({"L": rng.choice([8, 16, 64, 128]), "F": rng.choice([2, 4, 16, 128, 3, 100]),
                         "interp": rng.choice(gen.INTERPS), "probe": "dispatch",
                         "window": rng.choice(gen.WINDOWS)})
            if base["F"] == 1:
                base["F"] = 2
        insts = []
        for _i in range(rng.randrange(2, 5)):
            n = dict(base)
            n["kind"] = fam + rng.choice(["FixedIn", "FixedOut"])
            n["chunk"] = rng.choice([1, 2, 3, 7, 16, 33, 64, 100, 256, 1024])
            insts.append(n)
        ops = [with_id(n, i) for i, n in enumerate(insts)]
        for i in range(1, len(insts)):
            ops.append({"op": "note", "twin": "blocks", "a": 0, "b": i})
        want_out = rng.choice([600, 3000])
        for i, n in enumerate(insts):
            per_out = max(1.0, n["chunk"] * float(r)) if n["kind"].endswith("In") else n["chunk"]
            calls = int(min(700, want_out / per_out + (base.get("L", 8) * 3) / max(1, n["chunk"]) + 4))
            for c in range(calls):
                if fam == "Sinc" and rng.random() < 0.1:
                    for _r in range(rng.choice([1, 1, 2])):
                        ops.append({"op": "set_chunk", "id": i, "n": rng.randrange(1, n["chunk"] + 1)})
                o = {"op": "process", "id": i}
                if rng.random() < 0.2:
                    o["out"] = "max"
                if rng.random() < 0.2:
                    o["out_fill"] = "garbage"
                ops.append(o)
        S.append(ops)
    # ... and the same for the sinc types with a LARGE construction-time chunk that some instances lower to a few
    # frames in mid-stream, on signals with exact silence (state sized for the construction-time chunk and
    # short-cuts on silence - seeded change C05h)
    for _ in range(n_gen // 2):
        r = rng.choice([Fraction(1), Fraction(2), Fraction(1, 2), Fraction(1)])
        L = rng.choice([16, 64, 128])
        base = {"op": "new", "T": rng.choice([32, 64]), "ch": rng.choice([1, 2]), "r": gen.rj(r),
                "maxrel": gen.rj(Fraction(2)), "signal": "burst", "seed": 13, "blk": 16,
                "seg": rng.choice([300, 700, 1500]), "L": L, "F": rng.choice([2, 16, 128]),
                "interp": rng.choice(gen.INTERPS), "probe": "dispatch", "window": rng.choice(gen.WINDOWS)}
        if base["F"] == 1:
            base["F"] = 2
        kind = rng.choice(["SincFixedIn", "SincFixedIn", "SincFixedOut"])
        insts = [dict(base, kind=kind, chunk=rng.choice([256, 1024])) for _i in range(3)]
        ops = [with_id(n, i) for i, n in enumerate(insts)]
        for i in range(1, len(insts)):
            ops.append({"op": "note", "twin": "blocks", "a": 0, "b": i})
        want_out = 5000
        for i, n in enumerate(insts):
            produced, cur = 0, n["chunk"]
            lowered_at = rng.choice([600, 1500, 2500]) if i > 0 else None
            while produced < want_out:
                if lowered_at is not None and produced >= lowered_at:
                    cur = rng.choice([8, 16, 32, 64])
                    ops.append({"op": "set_chunk", "id": i, "n": cur})
                    lowered_at = None
                ops.append({"op": "process", "id": i})
                produced += max(1, int(cur * float(r))) if kind.endswith("In") else cur
        S.append(ops)
    return S


# ------------------------------------------------------------------------------------------------
def model_prefixes(prop, tier, wd, rng, cov):
    """TLC-generated histories (one per reachable control state) from the as-is models."""
    out = []
    for module, tag, params, conv, q in props.model_configs("C03", tier):
        res = model.check_model(module, props.cfg_text(module, params, False), wd, "%s-%s" % (prop, tag),
                                workers=8 if tier == "quick" else 14, timeout=3000)
        cov["states"] += res["distinct"]
        cov["transitions"] += res["generated"]
        cov["model_runs"].append({"module": module, "config": tag, "distinct": res["distinct"],
                                  "generated": res["generated"], "ok": res["ok"]})
        if not res["ok"]:
            raise run.ToolError("model %s/%s fails on its own: %s" % (module, tag, res["error"]))
        reps = props.emit_behaviours(module, tag, params, tier, rng.randrange(1 << 30), wd, prop, rng,
                                     quick_n=150, thorough_n=2000)
        for h in reps:
            ops, exp = conv(h)
            # rejected calls of the model alphabet are kept: they must not matter
            out.append(ops)
    rng.shuffle(out)
    return out


def fleet_schedules(tier, wd, rng, cov):
    cfgs = [(2, 2, 2), (3, 2, 2)] if tier == "quick" else [(2, 2, 3), (3, 2, 2), (2, 3, 2), (3, 3, 2)]
    scheds = []
    for (N, M, K) in cfgs:
        cfg = ("SPECIFICATION Spec\nCONSTANTS\n  N = %d\n  M = %d\n  K = %d\n  Emit = TRUE\n"
               "INVARIANT Isolation\nINVARIANT EmitSchedule\nPROPERTY Diamond\nCHECK_DEADLOCK FALSE\n" % (N, M, K))
        res = model.check_model("Fleet", cfg, wd, "fleet-%d%d%d" % (N, M, K), workers=1, timeout=1500)
        if not res["ok"]:
            raise run.ToolError("Fleet model fails: " + res["error"])
        cov["states"] += res["distinct"]
        cov["transitions"] += res["generated"]
        cov["model_runs"].append({"module": "Fleet", "config": "N%d M%d K%d" % (N, M, K),
                                  "distinct": res["distinct"], "generated": res["generated"], "ok": True,
                                  "schedules": len(res["replays"])})
        scheds += res["replays"]
    lim = {"quick": 700, "thorough": 6000}[tier]
    if len(scheds) > lim:
        scheds = rng.sample(scheds, lim)
    return scheds


def check(prop, tier, seed, replay=None):
    t0 = time.time()
    rng = random.Random(seed)
    plan = PLANS[prop]
    wd = run.workdir(prop)
    run.build_harness()
    if replay:
        ok, out = run.replay_hard(replay, plan["twin"], wd, module="TraceTwin")
        ok2 = True
        if plan["single"]:
            ok2, out2 = run.replay_hard(replay, plan["single"], wd)
            out += out2
        print(out[-3000:] if not (ok and ok2) else "replay: all predicates hold on " + replay)
        if not (ok and ok2):
            print("VIOLATION property=%s replay=%s" % (prop, replay))
        return 0 if ok and ok2 else 1
    cov = {"states": 0, "transitions": 0, "traces_validated_against_impl": 0, "samples": [],
           "model_runs": [], "scripts": {}}
    if prop == "C05":
        # chunking independence on the content model: AsyncPos C06_Supplied/contiguity under set_chunk
        # schedules, FftBlocks Contiguous for every (chunk, sub)
        for module, tag, params, conv, q in props.model_configs("C06", tier) + \
                [m for m in props.model_configs("C07", tier) if m[0] == "FftBlocks"]:
            p = dict(params)
            if module == "FftBlocks":
                p["invariants"] = ["Contiguous", "C07_Blocks", "C07_DriftIsSaved"]
            res = model.check_model(module, props.cfg_text(module, p, False), wd, "%s-%s" % (prop, tag),
                                    workers=8 if tier == "quick" else 14, timeout=3000)
            if not res["ok"]:
                raise run.ToolError("model %s/%s fails on its own: %s" % (module, tag, res["error"]))
            cov["states"] += res["distinct"]
            cov["transitions"] += res["generated"]
            cov["model_runs"].append({"module": module, "config": tag, "distinct": res["distinct"],
                                      "generated": res["generated"], "ok": True, "invariants": p["invariants"]})
        S = c05_scripts(rng, tier)
    elif prop == "C18":
        S = c18_scripts(rng, tier, fleet_schedules(tier, wd, rng, cov))
    else:
        if prop == "C11":
            # the FFT resamplers share their work buffers between channels: data-flow model
            ch, bl = ("{1,2,3}", "{1,2,3}") if tier == "quick" else ("{1,2,3,4}", "{1,2,3,4}")
            cfg = ("SPECIFICATION Spec\nCONSTANTS\n  Chans = %s\n  Blocks = %s\nINVARIANT C11_NoForeignRead\n"
                   "INVARIANT C11_OutputDeps\nCHECK_DEADLOCK FALSE\n" % (ch, bl))
            r0 = model.check_model("FftUnit", cfg, wd, "C11-fftunit", workers=4, timeout=1500)
            if not r0["ok"]:
                raise run.ToolError("FftUnit fails on its own: " + r0["error"])
            cov["states"] += r0["distinct"]
            cov["transitions"] += r0["generated"]
            cov["model_runs"].append({"module": "FftUnit", "config": "Chans %s Blocks %s" % (ch, bl),
                                      "distinct": r0["distinct"], "generated": r0["generated"], "ok": True,
                                      "invariants": ["C11_NoForeignRead", "C11_OutputDeps"]})
        pref = model_prefixes(prop, tier, wd, rng, cov)
        S = {"C10": c10_scripts, "C16": c16_scripts, "C17": c17_scripts, "C11": c11_scripts}[prop](rng, tier, pref)
    if prop == "C16":
        # every (mask, per-channel length) case of the partial wrapper that Shapes.tla enumerates
        from . import shapes
        for nch in ([1, 2] if tier == "quick" else [1, 2, 3]):
            _, pcases = shapes.cases(nch, wd, prop, cov)
            S += shapes.partial_scripts(pcases, nch, rng, limit={"quick": 300, "thorough": 3000}[tier])
    # witnesses of repaired defects of this property (regressions)
    for w in {"C10": ["D13"]}.get(prop, []):
        wp = os.path.join(run.VERIF, "findings", w + ".jsonl")
        if os.path.exists(wp):
            S.append([json.loads(l) for l in open(wp) if l.strip()])
    cov["scripts"]["total"] = len(S)
    pairs = run.run_scripts(S, wd)
    res = run.validate_traces(pairs, plan["twin"], wd, module="TraceTwin", tag=prop)
    viols = list(res["viols"])
    run.pair_stats(res, cov, prop)
    cov["states"] += res["states"]
    cov["transitions"] += res["transitions"]
    cov["traces_validated_against_impl"] = res["traces"]
    cov["events_validated"] = res["events"]
    if plan["single"]:
        res2 = run.validate_traces(pairs, plan["single"], wd, module="TraceContract", tag=prop + "s")
        cov["states"] += res2["states"]
        cov["transitions"] += res2["transitions"]
        viols += res2["viols"]
    known = props.load_known()
    lines, nviol, seen, seen_known = [], 0, set(), {}
    for kind, name, script, line, ev, kfid in viols:
        if kind == "KNOWN" and kfid in known:
            # a twin whose instance dies of a known finding stops being compared; listed, not an alarm
            seen_known[kfid] = seen_known.get(kfid, 0) + 1
            continue
        if (script, name) in seen:
            continue
        seen.add((script, name))
        nviol += 1
        keep = run.save_replay(prop, script)
        lines.append("VIOLATION property=%s replay=%s predicate=%s line=%d" % (prop, keep, name, line))
    for kfid, cnt in sorted(seen_known.items()):
        lines.append("KNOWN-FINDING: property=%s %s (%d events) %s" % (prop, kfid, cnt, known[kfid]["site"]))
    for sp, tp in pairs[:2]:
        evs = run.read_trace(tp)
        cov["samples"].append({"script": [json.loads(l) for l in open(sp)][:8],
                               "events": [{k: e.get(k) for k in ("ev", "id", "res", "nin", "nout", "dig", "thread")
                                           if k in e} for e in evs[1:7]]})
    cov["predicates"] = plan["twin"] + plan["single"]
    cov["rule"] = ("one trace per twin script (2..15 real instances each); states/transitions: TLC runs of the as-is "
                   "models / Fleet plus TLC trace validation against TraceTwin.tla")
    wall = time.time() - t0
    run.write_evidence(prop, tier, seed, "model_checking", cov, wall, nviol,
                       ["twins are compared on their common prefix; an instance that dies of a known finding ends its comparison",
                        "bit-identity is compared through 64-bit FNV digests of the written frames"])
    for l in lines:
        print(l)
    print("%s %s: %d traces, %d events, %d states, %d violations, %.1fs" % (
        prop, tier, res["traces"], res["events"], cov["states"], nviol, wall))
    shutil.rmtree(wd, ignore_errors=True)
    return 1 if nviol else 0
