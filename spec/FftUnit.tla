------------------------------ MODULE FftUnit ------------------------------
(***************************************************************************)
(* FftResampler::resample_unit (synchro.rs) as a data-flow machine (C11).  *)
(*                                                                         *)
(* All channels of an FFT resampler share ONE set of work buffers          *)
(* (input_buf, input_f, output_f, output_buf, the scratch vectors); only   *)
(* the overlap vector is per channel.  Channel independence therefore      *)
(* rests on every unit overwriting each region of the shared buffers       *)
(* before reading it.  Each region carries the identity of the (channel,   *)
(* block) whose data it holds; a step may only read regions holding the    *)
(* data of the unit being computed (or constants), and the output of the   *)
(* unit may only depend on the unit's own input block and on the overlap   *)
(* of the SAME channel's previous block.  TLC explores every interleaving  *)
(* of units of different channels (the order in which the adapters call    *)
(* resample_unit: channel-major in FftFixedIn/Out, one unit per channel in *)
(* FftFixedInOut, masks skipping channels).                                *)
(***************************************************************************)
EXTENDS Integers, FiniteSets, TLC

CONSTANTS Chans,      \* channel ids
          Blocks      \* block numbers 1..n per channel

Steps == <<"load", "pad", "fft", "mul", "copy", "zero", "ifft", "add", "save", "done">>
Regions == {"in_lo", "in_hi", "in_f", "out_f_lo", "out_f_hi", "out_buf_lo", "out_buf_hi"}
Const == [c |-> 0, b |-> 0]          \* zeros / the filter: data of nobody
Stale(u) == [c |-> -1, b |-> u]      \* never written

VARIABLES pc,        \* index into Steps of the unit in progress (10 = idle)
          unit,      \* [c, b]: the unit in progress
          reg,       \* region -> whose data it holds
          overlap,   \* channel -> block whose tail it holds (0 = zeros)
          done,      \* channel -> last block completed
          outdep,    \* [of, deps]: the unit whose output was produced last and the units its value depends on
          ok         \* no step has read foreign or stale data

vars == <<pc, unit, reg, overlap, done, outdep, ok>>

Init == /\ pc = 10 /\ unit = Const /\ reg = [r \in Regions |-> Stale(0)]
        /\ overlap = [c \in Chans |-> 0] /\ done = [c \in Chans |-> 0]
        /\ outdep = [of |-> Const, deps |-> {}] /\ ok = TRUE

\* the adapters start a unit for any channel whose next block is due (masked channels are
\* simply never chosen)
Start(c) == /\ pc = 10 /\ done[c] + 1 \in Blocks
            /\ unit' = [c |-> c, b |-> done[c] + 1] /\ pc' = 1
            /\ UNCHANGED <<reg, overlap, done, outdep, ok>>

Mine(r) == reg[r] = unit \/ reg[r] = Const
Reads(rs) == \A r \in rs : Mine(r)
W(r, v) == [reg EXCEPT ![r] = v]

Step ==
  /\ pc < 10
  /\ LET s == Steps[pc] IN
     CASE s = "load" -> /\ reg' = W("in_lo", unit) /\ ok' = ok              \* input_buf[0..fft_in] = wave_in
                        /\ UNCHANGED <<overlap, done, outdep>>
       [] s = "pad"  -> /\ reg' = W("in_hi", Const) /\ ok' = ok              \* input_buf[fft_in..] = 0
                        /\ UNCHANGED <<overlap, done, outdep>>
       [] s = "fft"  -> /\ ok' = (ok /\ Reads({"in_lo", "in_hi"}))           \* input_f = FFT(input_buf)
                        /\ reg' = W("in_f", unit)
                        /\ UNCHANGED <<overlap, done, outdep>>
       [] s = "mul"  -> /\ ok' = (ok /\ Reads({"in_f"}))                      \* input_f[..new_len] *= filter_f
                        /\ UNCHANGED <<reg, overlap, done, outdep>>
       [] s = "copy" -> /\ ok' = (ok /\ Reads({"in_f"}))                      \* output_f[..new_len] = input_f[..new_len]
                        /\ reg' = W("out_f_lo", unit)
                        /\ UNCHANGED <<overlap, done, outdep>>
       [] s = "zero" -> /\ reg' = W("out_f_hi", Const) /\ ok' = ok            \* output_f[new_len..] = 0
                        /\ UNCHANGED <<overlap, done, outdep>>
       [] s = "ifft" -> /\ ok' = (ok /\ Reads({"out_f_lo", "out_f_hi"}))     \* output_buf = IFFT(output_f)
                        /\ reg' = [reg EXCEPT !["out_buf_lo"] = unit, !["out_buf_hi"] = unit]
                        /\ UNCHANGED <<overlap, done, outdep>>
       [] s = "add"  -> /\ ok' = (ok /\ Reads({"out_buf_lo"}))                \* wave_out = output_buf[..] + overlap
                        /\ outdep' = [of |-> unit,
                                       deps |-> {unit} \cup (IF overlap[unit.c] = 0 THEN {}
                                                             ELSE {[c |-> unit.c, b |-> overlap[unit.c]]})]
                        /\ UNCHANGED <<reg, overlap, done>>
       [] s = "save" -> /\ ok' = (ok /\ Reads({"out_buf_hi"}))                \* overlap = output_buf[fft_out..]
                        /\ overlap' = [overlap EXCEPT ![unit.c] = unit.b]
                        /\ done' = [done EXCEPT ![unit.c] = unit.b]
                        /\ UNCHANGED <<reg, outdep>>
       [] OTHER -> UNCHANGED <<reg, overlap, done, outdep, ok>>
  /\ pc' = IF Steps[pc] = "save" THEN 10 ELSE pc + 1
  /\ UNCHANGED unit

\* reset(): overlaps zeroed (work buffers are left as they are)
Reset == /\ pc = 10 /\ overlap' = [c \in Chans |-> 0] /\ done' = [c \in Chans |-> 0]
         /\ UNCHANGED <<pc, unit, reg, outdep, ok>>

Next == (\E c \in Chans : Start(c)) \/ Step \/ Reset
Spec == Init /\ [][Next]_vars

\* C11: no unit ever reads data of another channel/block or never-written cells of the shared buffers
C11_NoForeignRead == ok
\* C11/C05: an output block depends on its own input block and on the previous block of the SAME channel
C11_OutputDeps == \A d \in outdep.deps : d.c = outdep.of.c /\ (d.b = outdep.of.b \/ d.b = outdep.of.b - 1)

=============================================================================
