----------------------------- MODULE PolyTables -----------------------------
(***************************************************************************)
(* The interpolation polynomials of asynchro_fast.rs (interp_septic,       *)
(* interp_quintic, interp_cubic, interp_lin), transcribed as integer       *)
(* coefficient tables: the value at offset x in [0,1) from the sample at   *)
(* floor(tau) is  sum_m y[m] * c_m(x),  c_m(x) = (sum_i K[i][m] x^i) / Den *)
(* with the samples y[0..n-1] at the nodes Lo, Lo+1, ...                   *)
(*                                                                         *)
(* Kernels.tla proves (TLC, exact integers) that every c_m is the Lagrange *)
(* cardinal of its node set - c_m(node_j) = [m = j] - which, the degree    *)
(* being n-1, makes sum_m y[m] c_m the UNIQUE polynomial through the n     *)
(* samples (C08).  TraceTwin.tla evaluates c_m(x) in fixed point to        *)
(* predict the response of the real resamplers to one-hot inputs.          *)
(***************************************************************************)
EXTENDS Integers, Sequences

Degrees == {"Septic", "Quintic", "Cubic", "Linear", "Nearest"}

\* coefficient rows, highest power first; columns = samples in buffer order
K(deg) ==
  CASE deg = "Septic" ->
         << <<-1, 7, -21, 35, -35, 21, -7, 1>>,
            <<7, -42, 105, -140, 105, -42, 7, 0>>,
            <<-7, -14, 189, -490, 595, -378, 119, -14>>,
            <<-35, 420, -1365, 1960, -1365, 420, -35, 0>>,
            <<56, -497, 336, 1715, -3080, 1869, -448, 49>>,
            <<28, -378, 3780, -6860, 3780, -378, 28, 0>>,
            <<-48, 504, -3024, -1260, 5040, -1512, 336, -36>>,
            <<0, 0, 0, 5040, 0, 0, 0, 0>> >>
    [] deg = "Quintic" ->
         << <<-1, 5, -10, 10, -5, 1>>,
            <<5, -20, 30, -20, 5, 0>>,
            <<-5, -5, 50, -70, 35, -5>>,
            <<-5, 80, -150, 80, -5, 0>>,
            <<6, -60, -40, 120, -30, 4>>,
            <<0, 0, 120, 0, 0, 0>> >>
    [] deg = "Cubic" ->
         \* a3 = (y1-y2)/2 + (y3-y0)/6, a2 = (y0+y2)/2 - y1, a1 = -y0/3 - y1/2 + y2 - y3/6, a0 = y1
         << <<-1, 3, -3, 1>>,
            <<3, -6, 3, 0>>,
            <<-2, -3, 6, -1>>,
            <<0, 6, 0, 0>> >>
    [] deg = "Linear" ->
         << <<-1, 1>>,
            <<1, 0>> >>
    [] OTHER -> << <<1>> >>

Den(deg) == CASE deg = "Septic" -> 5040 [] deg = "Quintic" -> 120 [] deg = "Cubic" -> 6 [] OTHER -> 1
\* first node (offset of sample 0 from floor(tau)) and number of samples
Lo(deg) == CASE deg = "Septic" -> -3 [] deg = "Quintic" -> -2 [] deg = "Cubic" -> -1 [] OTHER -> 0
NPts(deg) == Len(K(deg)[1])

\* Den * c_m(x) at an integer x (exact)
RECURSIVE HornerInt(_, _, _, _, _)
HornerInt(deg, m, x, i, acc) ==
  IF i > Len(K(deg)) THEN acc ELSE HornerInt(deg, m, x, i + 1, acc * x + K(deg)[i][m])
CardAtInt(deg, m, x) == HornerInt(deg, m, x, 1, 0)

\* Den * c_m(x) * 2^16 at x = x10 / 1024, 0 <= x10 < 1024 (floor at each step, no overflow)
MulFrac(acc, x10) == LET hi == acc \div 1024
                         lo == acc % 1024
                     IN hi * x10 + ((lo * x10) \div 1024)
RECURSIVE HornerFix(_, _, _, _, _)
HornerFix(deg, m, x10, i, acc) ==
  IF i > Len(K(deg)) THEN acc
  ELSE HornerFix(deg, m, x10, i + 1, MulFrac(acc, x10) + K(deg)[i][m] * 65536)
CardFix(deg, m, x10) == HornerFix(deg, m, x10, 1, 0)

=============================================================================
