------------------------------ MODULE FftBlocks ------------------------------
(***************************************************************************)
(* As-is model of the synchronous (FFT) resamplers of synchro.rs:          *)
(* FftFixedIn, FftFixedOut, FftFixedInOut.  Everything that decides sizes, *)
(* indices and acceptance is integer arithmetic on the reduced rates       *)
(* a = fs_in/gcd, b = fs_out/gcd and is transcribed expression by          *)
(* expression (one operator per Rust expression).                          *)
(*                                                                         *)
(* Content model: `buf` holds, for every occupied cell of the staging      *)
(* buffer (input_buffers of FftFixedIn, output_buffers of FftFixedOut),    *)
(* the number of the frame stored there RELATIVE to the next frame to be   *)
(* processed / delivered, so that "no frame lost, duplicated or taken from *)
(* stale storage" is the state predicate Contiguous and the model is       *)
(* finite-state without a depth bound: `drift` = totIn*b - totOut*a is     *)
(* carried instead of the two unbounded totals (C07 for unbounded streams).*)
(***************************************************************************)
EXTENDS Integers, Sequences, FiniteSets, TLC, Json

CONSTANTS Kinds,        \* subset of {"FftFixedIn","FftFixedOut","FftFixedInOut"}
          Rates,        \* sample rates to combine
          Chunks,       \* requested chunk sizes
          Subs,         \* sub_chunks values
          MaxDepth,     \* bound on the number of calls of a behaviour (0 = unbounded)
          Emit          \* TRUE: print one replay script per distinct state

VARIABLES cfg,          \* [kind, fs_in, fs_out, chunk, sub]
          saved,        \* saved_frames
          needed,       \* frames_needed (FftFixedOut)
          buf,          \* staging buffer content (relative frame numbers)
          drift,        \* totIn*b - totOut*a
          depth,
          hist          \* replay script with the model's predictions

vars == <<cfg, saved, needed, buf, drift, depth, hist>>
view == <<cfg, saved, needed, buf, drift>>

Min(x, y) == IF x < y THEN x ELSE y
Max(x, y) == IF x > y THEN x ELSE y
RECURSIVE GCD(_, _)
GCD(x, y) == IF y = 0 THEN x ELSE GCD(y, x % y)
CeilDiv(x, y) == (x + y - 1) \div y

A == cfg.fs_in \div GCD(cfg.fs_in, cfg.fs_out)      \* min_chunk_in
B == cfg.fs_out \div GCD(cfg.fs_in, cfg.fs_out)     \* min_chunk_out

\* fft_chunks = ceil(wanted / min_chunk) on the side the chunk size refers to
FftChunks ==
  CASE cfg.kind = "FftFixedInOut" -> Max(1, CeilDiv(cfg.chunk, A))
    [] cfg.kind = "FftFixedIn"    -> Max(1, CeilDiv(cfg.chunk \div cfg.sub, A))
    [] OTHER                      -> Max(1, CeilDiv(cfg.chunk \div cfg.sub, B))
FftIn  == FftChunks * A
FftOut == FftChunks * B

\* ---- the getters, as the code computes them ----
InNext ==
  CASE cfg.kind = "FftFixedIn"  -> cfg.chunk
    [] cfg.kind = "FftFixedOut" -> needed
    [] OTHER                    -> FftIn
InMax ==
  CASE cfg.kind = "FftFixedIn"  -> cfg.chunk
    [] cfg.kind = "FftFixedOut" -> CeilDiv(cfg.chunk, FftOut) * FftIn
    [] OTHER                    -> FftIn
OutNext ==
  CASE cfg.kind = "FftFixedIn"  -> ((saved + cfg.chunk) \div FftIn) * FftOut
    [] cfg.kind = "FftFixedOut" -> cfg.chunk
    [] OTHER                    -> FftOut
OutMax ==
  CASE cfg.kind = "FftFixedIn"  -> ((FftIn - 1 + cfg.chunk) \div FftIn) * FftOut
    [] cfg.kind = "FftFixedOut" -> cfg.chunk
    [] OTHER                    -> FftOut
Delay == IF cfg.kind = "FftFixedInOut" THEN FftOut \div 2 ELSE FftOut \div 2
BufLen ==
  CASE cfg.kind = "FftFixedIn"  -> cfg.chunk + FftIn
    [] cfg.kind = "FftFixedOut" -> cfg.chunk + FftOut
    [] OTHER                    -> 0

Getters == [in_next |-> InNext, in_max |-> InMax, out_next |-> OutNext, out_max |-> OutMax,
            delay |-> Delay]

Configs == {c \in [kind : Kinds, fs_in : Rates, fs_out : Rates, chunk : Chunks, sub : Subs] :
              (c.kind = "FftFixedInOut" => c.sub = 1)}

NeededInit(c) == LET a == c.fs_in \div GCD(c.fs_in, c.fs_out)
                     b == c.fs_out \div GCD(c.fs_in, c.fs_out)
                     k == Max(1, CeilDiv(c.chunk \div c.sub, b))
                 IN CeilDiv(c.chunk, k * b) * (k * a)

Init ==
  /\ cfg \in Configs
  /\ saved = 0
  /\ needed = IF cfg.kind = "FftFixedOut" THEN NeededInit(cfg) ELSE 0
  /\ buf = <<>>
  /\ drift = 0
  /\ depth = 0
  /\ hist = <<[op |-> "new", cfg |-> cfg, g |-> Getters]>>

\* must come last in an action: Getters' needs every primed variable
Step(entry) == /\ depth' = depth + 1
               /\ hist' = IF Emit THEN Append(hist, entry @@ [g |-> Getters']) ELSE hist

(***************************************************************************)
(* process_into_buffer with well-formed arguments                          *)
(***************************************************************************)
Seq0(n) == [i \in 1..n |-> i - 1]          \* frames 0..n-1

ProcessFixedIn ==
  LET next   == saved + cfg.chunk                       \* next_saved_frames
      ready  == next \div FftIn                         \* nbr_chunks_ready
      nout   == ready * FftOut                          \* needed_len
      \* copy new samples at input_buffers[saved .. saved+chunk)
      filled == buf \o [i \in 1..cfg.chunk |-> saved + i - 1]
      used   == ready * FftIn                           \* frames_in_used
      \* copy_within(frames_in_used..saved_frames, 0); numbering restarts after the used frames
      rest   == [i \in 1..(next - used) |-> filled[used + i] - used]
  IN /\ cfg.kind = "FftFixedIn"
     /\ saved' = next - used
     /\ buf' = rest
     /\ drift' = drift + cfg.chunk * B - nout * A
     /\ UNCHANGED <<cfg, needed>>
     /\ Step([op |-> "process", nin |-> cfg.chunk, nout |-> nout])

ProcessFixedOut ==
  LET blocks == needed \div FftIn
      \* blocks are written at output_buffers[saved ..] in chunks of fft_size_out
      filled == buf \o [i \in 1..(blocks * FftOut) |-> saved + i - 1]
      processed == saved + FftOut * blocks               \* processed_frames
      deliver == processed >= cfg.chunk
      saved2 == IF deliver THEN processed - cfg.chunk ELSE processed
      rest == IF deliver THEN [i \in 1..saved2 |-> filled[cfg.chunk + i] - cfg.chunk] ELSE filled
      needOut == IF cfg.chunk > saved2 THEN cfg.chunk - saved2 ELSE 0
  IN /\ cfg.kind = "FftFixedOut"
     /\ saved' = saved2
     /\ buf' = rest
     /\ needed' = CeilDiv(needOut, FftOut) * FftIn
     /\ drift' = drift + needed * B - cfg.chunk * A
     /\ UNCHANGED cfg
     /\ Step([op |-> "process", nin |-> needed, nout |-> cfg.chunk])

ProcessInOut ==
  /\ cfg.kind = "FftFixedInOut"
  /\ drift' = drift + FftIn * B - FftOut * A
  /\ UNCHANGED <<cfg, saved, needed, buf>>
  /\ Step([op |-> "process", nin |-> FftIn, nout |-> FftOut])

Process == ProcessFixedIn \/ ProcessFixedOut \/ ProcessInOut

Reset ==
  /\ saved' = 0 /\ buf' = <<>> /\ drift' = 0
  /\ needed' = IF cfg.kind = "FftFixedOut" THEN CeilDiv(cfg.chunk, FftOut) * FftIn ELSE 0
  /\ UNCHANGED cfg
  /\ Step([op |-> "reset"])

\* calls that must be rejected and change nothing (C12, C13): only in replay scripts
Rejected ==
  /\ Emit
  /\ UNCHANGED <<cfg, saved, needed, buf, drift>>
  /\ \E o \in {"set_ratio", "set_chunk", "bad_in", "bad_out", "bad_mask"} :
        /\ (o = "bad_in" => InNext > 0)         \* a buffer cannot be shorter than 0 frames
        /\ (o = "bad_out" => OutNext > 0)
        /\ Step([op |-> o])

Next == Process \/ Reset \/ Rejected

Spec == Init /\ [][Next]_vars

DepthBound == MaxDepth = 0 \/ depth <= MaxDepth

(***************************************************************************)
(* Invariants (the Contract predicates, on model state)                    *)
(***************************************************************************)
TypeOK == /\ saved \in Nat /\ needed \in Nat /\ Len(buf) = saved

\* C04: advertised counts are bounds
C04_Bounds == InNext <= InMax /\ OutNext <= OutMax

\* C03: every slice/copy range stays inside its vector
C03_InBuffer ==
  /\ cfg.kind = "FftFixedIn"  => saved + cfg.chunk <= BufLen
  /\ cfg.kind = "FftFixedOut" => saved + (needed \div FftIn) * FftOut <= BufLen
  /\ FftIn > 0 /\ FftOut > 0

\* C05/C06-style content invariant: the staging buffer holds exactly the next frames, in order
Contiguous == \A i \in 1..Len(buf) : buf[i] = i - 1

\* FftFixedOut always has a full chunk to deliver (otherwise it would return frames it never wrote)
C04_Delivers == cfg.kind = "FftFixedOut" => saved + (needed \div FftIn) * FftOut >= cfg.chunk

\* C07: 0 <= totIn*rate_out - totOut*rate_in < one block, = 0 for FftFixedInOut
C07_Drift == /\ drift >= 0
             /\ drift < FftIn * B
             /\ cfg.kind = "FftFixedInOut" => drift = 0
\* ... and the drift is a function of the parked frames alone (so it cannot accumulate)
C07_DriftIsSaved ==
  /\ cfg.kind = "FftFixedIn"  => drift = saved * B
  /\ cfg.kind = "FftFixedOut" => drift = saved * A

\* C07: block sizes are exact and minimal
C07_Blocks == /\ FftIn * cfg.fs_out = FftOut * cfg.fs_in
              /\ cfg.kind = "FftFixedInOut" =>
                   /\ FftIn >= cfg.chunk
                   /\ \A n \in cfg.chunk..(FftIn - 1) : (n * cfg.fs_out) % cfg.fs_in # 0

\* C10: reset restores the constructed state
C10_ResetIsInit ==
  [][Reset => /\ saved' = 0 /\ buf' = <<>>
              /\ needed' = (IF cfg.kind = "FftFixedOut" THEN NeededInit(cfg) ELSE 0)]_vars

\* This machine takes exactly the transitions of the parametric machine FftInd.tla (operators of
\* FftIndOps.tla), whose invariant is PROVED inductive for arbitrary rates and sizes
\* (FftIndProofs.tla); FftFixedInOut is the fixed-input machine with a chunk of exactly one block.
IndOps == INSTANCE FftIndOps
IFixedIn == cfg.kind # "FftFixedOut"
IChunk == IF cfg.kind = "FftFixedInOut" THEN FftIn ELSE cfg.chunk
IndNext ==
  \/ IndOps!StepInP(A, B, FftIn, FftOut, IChunk, IFixedIn, saved, needed, drift, saved', needed', drift')
  \/ IndOps!StepOutP(A, B, FftIn, FftOut, IChunk, IFixedIn, saved, needed, drift, saved', needed', drift')
  \/ IndOps!ResetP(FftIn, FftOut, IChunk, IFixedIn, saved', needed', drift')
IndRefines == /\ IndOps!InitP(FftIn, FftOut, IChunk, IFixedIn, saved, needed, drift)
              /\ [][IndNext]_<<saved, needed, drift>>
\* ... and therefore satisfies the proved invariant (checked here as well: the assumptions of the proof -
\* positive rates, block count and chunk - hold for every configuration)
IndInvHere == /\ A \in Nat /\ A > 0 /\ B \in Nat /\ B > 0 /\ FftChunks \in Nat /\ FftChunks > 0 /\ IChunk > 0
              /\ FftIn = FftChunks * A /\ FftOut = FftChunks * B
              /\ IndOps!IndInvP(A, B, FftIn, FftOut, IChunk, IFixedIn, saved, needed, drift)

\* replay scripts: one per distinct state (invariant evaluated once per new state)
EmitScript == Emit => PrintT("REPLAY|" \o ToJson(hist))

=============================================================================
