------------------------------ MODULE Kernels ------------------------------
(***************************************************************************)
(* The discrete core of the sample-producing kernels.                      *)
(*                                                                         *)
(* Part A (C15) - the sinc scalar product.  Every kernel of                *)
(* sinc_interpolator/ (scalar, AVX, SSE, NEON; f32 and f64) is the same    *)
(* loop over 8 taps per iteration with A accumulators of W lanes           *)
(* (A * W = 8) followed by a horizontal reduction.  The model executes the *)
(* loop iteration by iteration on SYMBOLIC products <<wave offset, tap>>   *)
(* and the reduction register operation by register operation (hadd,       *)
(* extract, lane-wise add as the intrinsics define them), and TLC checks   *)
(* that the value returned is the sum of exactly the products              *)
(* <<k, k>>, k = 0..L-1 - each tap of the selected sinc paired once with   *)
(* the wave sample at index + k, nothing outside the window.               *)
(* It also checks the re-indexing of make_sincs: branch `sub` is the sinc  *)
(* delayed by L/2 - 1 + (sub+1)/F samples.                                 *)
(*                                                                         *)
(* Part B (C08) - the interpolation polynomials of asynchro_fast.rs are    *)
(* the Lagrange cardinals of their node sets (exact integer check).        *)
(***************************************************************************)
EXTENDS PolyTables, FiniteSets, TLC

CONSTANTS Ls,       \* sinc lengths (multiples of 8)
          FsK       \* oversampling factors for the re-indexing check

KernelNames == {"scalar", "avx32", "avx64", "sse32", "sse64", "neon32", "neon64"}
Width(k) == CASE k = "scalar" -> 1 [] k = "avx32" -> 8 [] k \in {"avx64", "sse32", "neon32"} -> 4
              [] OTHER -> 2
NAcc(k) == 8 \div Width(k)

VARIABLES part,     \* "loop" | "cardinal" | "reindex"
          kern, len, it,
          acc,      \* acc[a][lane]: sequence of symbolic products accumulated in that lane
          result,   \* sequence of products summed into the returned value (after the reduction)
          q         \* the instance checked by the one-state parts
vars == <<part, kern, len, it, acc, result, q>>

ZeroRegs(k) == [a \in 1..NAcc(k) |-> [l \in 1..Width(k) |-> <<>>]]

Init ==
  \/ /\ part = "loop" /\ kern \in KernelNames /\ len \in Ls /\ it = 0
     /\ acc = ZeroRegs(kern) /\ result = <<>> /\ q = <<>>
  \/ /\ part = "cardinal" /\ kern = "-" /\ len = 0 /\ it = 0 /\ acc = <<>> /\ result = <<>>
     /\ q \in {<<d, m, j>> : d \in Degrees, m \in 1..8, j \in 1..8}
     /\ q[2] <= NPts(q[1]) /\ q[3] <= NPts(q[1])
  \/ /\ part = "reindex" /\ kern = "-" /\ it = 0 /\ acc = <<>> /\ result = <<>>
     /\ len \in Ls
     /\ q \in {<<f, s>> : f \in FsK, s \in 0..63} /\ q[2] < q[1]

\* one iteration of `for _ in 0..wave_cut.len() / 8`: accumulator a, lane l gets
\* wave_cut[w_idx + a*W + l] * sinc[s_idx + a] lane l  (w_idx = 8*it, s_idx = NAcc*it)
Iterate ==
  /\ part = "loop" /\ it < len \div 8
  /\ acc' = [a \in 1..NAcc(kern) |-> [l \in 1..Width(kern) |->
               Append(acc[a][l],
                      << 8 * it + (a - 1) * Width(kern) + (l - 1),                    \* wave offset
                         (NAcc(kern) * it + (a - 1)) * Width(kern) + (l - 1) >>)]]    \* tap of the packed sinc
  /\ it' = it + 1
  /\ UNCHANGED <<part, kern, len, result, q>>

\* register operations
AddV(x, y) == [l \in 1..Len(x) |-> x[l] \o y[l]]
HAdd4(x, y) == << x[1] \o x[2], x[3] \o x[4], y[1] \o y[2], y[3] \o y[4] >>    \* _mm_hadd_ps
HAdd2(x, y) == << x[1] \o x[2], y[1] \o y[2] >>                                \* _mm_hadd_pd
Hi(x) == SubSeq(x, Len(x) \div 2 + 1, Len(x))
LoH(x) == SubSeq(x, 1, Len(x) \div 2)

Reduce(k, r) ==
  CASE k = "scalar" -> r[1][1] \o r[2][1] \o r[3][1] \o r[4][1] \o r[5][1] \o r[6][1] \o r[7][1] \o r[8][1]
    [] k = "avx32" -> LET low == AddV(Hi(r[1]), LoH(r[1]))        \* extractf128 + castps256_ps128
                          t2 == HAdd4(low, low)
                          t1 == HAdd4(t2, t2)
                      IN t1[1]
    [] k = "avx64" -> LET all == AddV(r[1], r[2])
                          t2 == AddV(Hi(all), LoH(all))
                          t1 == HAdd2(t2, t2)
                      IN t1[1]
    [] k = "sse32" -> LET t4 == AddV(r[1], r[2])
                          t2 == HAdd4(t4, t4)
                          t1 == HAdd4(t2, t2)
                      IN t1[1]
    [] k = "sse64" -> LET t20 == AddV(r[1], r[2])
                          t21 == AddV(r[3], r[4])
                          t2 == HAdd2(t20, t21)
                          t1 == HAdd2(t2, t2)
                      IN t1[1]
    [] k = "neon32" -> LET sum4 == AddV(r[1], r[2])
                           sum2 == AddV(Hi(sum4), LoH(sum4))
                       IN sum2[1] \o sum2[2]
    [] OTHER -> LET p0 == AddV(r[1], r[2])                          \* neon64
                    p1 == AddV(r[3], r[4])
                    p2 == AddV(p0, p1)
                IN p2[1] \o p2[2]

Finish ==
  /\ part = "loop" /\ it = len \div 8 /\ result = <<>>
  /\ result' = Reduce(kern, acc)
  /\ UNCHANGED <<part, kern, len, it, acc, q>>

Next == Iterate \/ Finish
Spec == Init /\ [][Next]_vars

(***************************************************************************)
(* Invariants                                                              *)
(***************************************************************************)
Range(s) == {s[i] : i \in 1..Len(s)}
AllLanes == IF part = "loop" THEN {acc[a][l] : a \in 1..NAcc(kern), l \in 1..Width(kern)} ELSE {}

\* C15 loop invariant: after `it` iterations the lanes hold exactly the products of taps
\* 0..8*it-1, each once, every product pairing wave offset k with tap k
C15_LoopPairs ==
  part = "loop" =>
    /\ \A s \in AllLanes : \A i \in 1..Len(s) : s[i][1] = s[i][2]
    /\ UNION {Range(s) : s \in AllLanes} = {<<k, k>> : k \in 0..(8 * it - 1)}
    /\ \A s, t \in AllLanes : s # t => Range(s) \cap Range(t) = {}
    /\ \A s \in AllLanes : Cardinality(Range(s)) = Len(s)

\* C15: the returned value sums each tap of the window exactly once and nothing else
C15_ResultExact ==
  (part = "loop" /\ result # <<>>) =>
    /\ Len(result) = len
    /\ Range(result) = {<<k, k>> : k \in 0..(len - 1)}

\* make_sincs: sincs[F-n-1][p] = y[F*p + n], y[x] = w[x]*sinc((x - F*L/2)*fc/F): tap p of branch
\* s is the sinc sampled at p - (L/2 - 1 + (s+1)/F), i.e. the branch evaluates the wave at
\* index + L/2 - 1 + (s+1)/F
C15_BranchDelay ==
  part = "reindex" =>
    LET f == q[1]
        s == q[2]
        n == f - 1 - s
    IN \A p \in 0..(len - 1) :
         (f * p + n) - ((f * len) \div 2) = f * (p - (len \div 2 - 1)) - (s + 1)

\* C08: c_m is the Lagrange cardinal of the node set
C08_Cardinal ==
  part = "cardinal" =>
    LET d == q[1]
        m == q[2]
        j == q[3]
    IN CardAtInt(d, m, Lo(d) + (j - 1)) = (IF m = j THEN Den(d) ELSE 0)

=============================================================================
