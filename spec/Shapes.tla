------------------------------- MODULE Shapes -------------------------------
(***************************************************************************)
(* Case tables of the two pieces of lib.rs with rich case analysis:        *)
(*                                                                         *)
(*  (a) validate_buffers - which ResampleError a malformed call yields.    *)
(*      Transcribed as-is (the ORDER of the tests matters when a call has  *)
(*      several faults): input channel count, mask length, active input    *)
(*      lengths, output channel count, active output lengths.  The         *)
(*      contract (C13) only demands that the error names ONE of the        *)
(*      faults, with the right expected/actual sizes; TLC checks that the  *)
(*      transcribed decision always does, for every shape.                 *)
(*                                                                         *)
(*  (b) process_partial_into_buffer - how a partial chunk is padded: per   *)
(*      channel min(len, frames) frames are copied into a zeroed buffer of *)
(*      input_frames_next() frames, a channel that brings no frames gets   *)
(*      an EMPTY buffer (meant for masked channels).  The contract (C16):  *)
(*      the call equals process_into_buffer on the zero-padded input.      *)
(*                                                                         *)
(* Every initial state is one case; TLC enumerates them all (no            *)
(* transitions).  With Emit, each case is printed and executed against the *)
(* real code - one implementation test per case of the specification.      *)
(***************************************************************************)
EXTENDS Integers, Sequences, FiniteSets, TLC, Json

CONSTANTS NCh,        \* channels of the resampler
          Need,       \* input_frames_next of the call (abstract, > 0); output need is the same number
          Emit

VARIABLES part,       \* "validate" | "partial"
          shape       \* the call
vars == <<part, shape>>

Lens == {0, Need - 1, Need}
Counts == {NCh - 1, NCh, NCh + 1} \ {-1}

\* a call: channel counts, optional mask (length and values), per-channel lengths; the vectors have
\* exactly as many entries as the call has channels / mask entries
Active(s, c) == IF s.hasmask /\ c <= s.masklen THEN s.mask[c] ELSE TRUE

\* --- the set of faults of a shape (contract level) ---
Faults(s) ==
  {<<"WrongNumberOfInputChannels", <<NCh, s.nin>>>> : x \in IF s.nin # NCh THEN {1} ELSE {}}
  \cup {<<"WrongNumberOfOutputChannels", <<NCh, s.nout>>>> : x \in IF s.nout # NCh THEN {1} ELSE {}}
  \cup {<<"WrongNumberOfMaskChannels", <<NCh, s.masklen>>>> : x \in IF s.hasmask /\ s.masklen # NCh THEN {1} ELSE {}}
  \cup {<<"InsufficientInputBufferSize", <<c - 1, Need, s.inlen[c]>>>> :
          c \in {c \in 1..(IF s.nin < NCh THEN s.nin ELSE NCh) : Active(s, c) /\ s.inlen[c] < Need}}
  \cup {<<"InsufficientOutputBufferSize", <<c - 1, Need, s.outlen[c]>>>> :
          c \in {c \in 1..(IF s.nout < NCh THEN s.nout ELSE NCh) : Active(s, c) /\ s.outlen[c] < Need}}

\* --- the decision as the code takes it (after the repair of D5/D6: the mask length is checked
\*     first, before the mask is copied) ---
FirstShort(len, n, s) ==
  IF \E c \in 1..n : Active(s, c) /\ len[c] < Need
  THEN CHOOSE c \in 1..n : Active(s, c) /\ len[c] < Need /\ \A d \in 1..(c - 1) : ~(Active(s, d) /\ len[d] < Need)
  ELSE 0

Decision(s) ==
  IF s.hasmask /\ s.masklen # NCh THEN <<"WrongNumberOfMaskChannels", <<NCh, s.masklen>>>>
  ELSE IF s.nin # NCh THEN <<"WrongNumberOfInputChannels", <<NCh, s.nin>>>>
  ELSE LET ci == FirstShort(s.inlen, NCh, s) IN
       IF ci > 0 THEN <<"InsufficientInputBufferSize", <<ci - 1, Need, s.inlen[ci]>>>>
       ELSE IF s.nout # NCh THEN <<"WrongNumberOfOutputChannels", <<NCh, s.nout>>>>
       ELSE LET co == FirstShort(s.outlen, NCh, s) IN
            IF co > 0 THEN <<"InsufficientOutputBufferSize", <<co - 1, Need, s.outlen[co]>>>>
            ELSE <<"Ok", <<>>>>

\* --- (b) the partial wrapper ---
PActive(s, c) == IF s.hasmask THEN s.mask[c] ELSE TRUE
\* length of the padded buffer the wrapper builds for channel c
Padded(s, c) == IF s.len[c] > 0 THEN Need ELSE 0
\* frames of the caller's data that reach the core call
Copied(s, c) == IF s.len[c] < Need THEN s.len[c] ELSE Need
\* the wrapper's call succeeds iff every active channel got a full-length padded buffer
PartialOk(s) == \A c \in 1..NCh : PActive(s, c) => Padded(s, c) = Need

Init ==
  \/ /\ part = "validate"
     /\ \E ni \in Counts, no \in Counts, hm \in BOOLEAN :
          \E ml \in (IF hm THEN Counts ELSE {NCh}) :
            \E mk \in (IF hm THEN [1..ml -> BOOLEAN] ELSE {[c \in 1..ml |-> TRUE]}),
               il \in [1..ni -> Lens], ol \in [1..no -> Lens] :
              shape = [nin |-> ni, nout |-> no, hasmask |-> hm, masklen |-> ml, mask |-> mk,
                       inlen |-> il, outlen |-> ol]
  \/ /\ part = "partial"
     /\ \E hm \in BOOLEAN :
          \E mk \in (IF hm THEN [1..NCh -> BOOLEAN] ELSE {[c \in 1..NCh |-> TRUE]}),
             ln \in [1..NCh -> {0, 1, Need - 1, Need, Need + 2}] :
            shape = [hasmask |-> hm, mask |-> mk, len |-> ln]
Next == UNCHANGED vars
Spec == Init /\ [][Next]_vars

(***************************************************************************)
(* Invariants                                                              *)
(***************************************************************************)
\* C13: the decision is Ok exactly for well-formed shapes, and otherwise names one of the faults
C13_DecisionSound ==
  part = "validate" =>
    /\ (Decision(shape)[1] = "Ok") = (Faults(shape) = {})
    /\ Decision(shape)[1] # "Ok" => Decision(shape) \in Faults(shape)

\* C16: when the wrapper's call goes through, every active channel is exactly the caller's frames
\* followed by zeros up to input_frames_next (nothing beyond input_frames_next is used)
C16_PaddingExact ==
  part = "partial" =>
    (PartialOk(shape) => \A c \in 1..NCh : PActive(shape, c) => (Copied(shape, c) <= Need /\ Copied(shape, c) >= 1))

\* the quirk D10: an ACTIVE channel that brings 0 frames makes the call fail (its padded buffer is
\* empty); the contract quantifies over lengths 1..input_frames_next, so this is outside it
D10_EmptyActiveFails ==
  part = "partial" => (PartialOk(shape) = (\A c \in 1..NCh : PActive(shape, c) => shape.len[c] > 0))

EmitCase == Emit => PrintT("REPLAY|" \o ToJson([part |-> part, shape |-> shape,
                                                 expect |-> IF part = "validate" THEN Decision(shape)[1]
                                                            ELSE (IF PartialOk(shape) THEN "Ok" ELSE "Err")]))

=============================================================================
