---------------------------- MODULE AsyncRefines ----------------------------
(***************************************************************************)
(* AsyncPos implements Abstract: refinement mapping and the temporal       *)
(* property checked by TLC.                                                *)
(***************************************************************************)
EXTENDS AsyncPos

Prm == [exactOut |-> IsOut, p |-> P(cfg.orig), q |-> D(cfg.orig), L |-> L, adjustable |-> TRUE,
        chunkAdjustable |-> IsSinc, chunkMax |-> cfg.chunkMax, fixedIn |-> IsIn, orig |-> cfg.orig]

A == INSTANCE Abstract WITH
       prm <- Prm, inNext <- InNext, inMax <- InMax, outNext <- OutNext, outMax <- OutMax,
       cur <- cur, tgt <- tgt, chunk <- chunk, drift <- drift, const <- const,
       status <- IF Alive THEN "ok" ELSE "dead"

InitObs == [inNext |-> (IF IsOut THEN NeededInit(cfg) ELSE cfg.chunkMax),
            outNext |-> (IF IsOut THEN cfg.chunkMax ELSE OutNextIn(cfg.chunkMax, cfg.orig, cfg.orig)),
            chunk |-> cfg.chunkMax]

\* the contract's step relation, instantiated with this model's finite argument sets
ANext == A!Next(InitObs, Ratios, Chunks)
Refines == A!Init /\ [][ANext]_(A!avars)

\* the contract's invariants, through the mapping
A_Advertised == Alive => A!Advertised
A_DriftBound == Alive => A!DriftBound
=============================================================================
