----------------------------- MODULE FftRefines -----------------------------
(***************************************************************************)
(* FftBlocks implements Abstract (the synchronous resamplers are not       *)
(* adjustable, every processing call writes exactly output_frames_next).   *)
(***************************************************************************)
EXTENDS FftBlocks

Prm == [exactOut |-> TRUE, p |-> B, q |-> A, L |-> 0, adjustable |-> FALSE, chunkAdjustable |-> FALSE,
        chunkMax |-> cfg.chunk, fixedIn |-> cfg.kind # "FftFixedOut", orig |-> 0]

Abs == INSTANCE Abstract WITH
         prm <- Prm, inNext <- InNext, inMax <- InMax, outNext <- OutNext, outMax <- OutMax,
         cur <- 0, tgt <- 0, chunk <- cfg.chunk, drift <- 0, const <- FALSE, status <- "ok"

InitObs == [inNext |-> (IF cfg.kind = "FftFixedOut" THEN NeededInit(cfg)
                        ELSE IF cfg.kind = "FftFixedIn" THEN cfg.chunk ELSE FftIn),
            outNext |-> (IF cfg.kind = "FftFixedOut" THEN cfg.chunk
                         ELSE IF cfg.kind = "FftFixedIn" THEN (cfg.chunk \div FftIn) * FftOut ELSE FftOut),
            chunk |-> cfg.chunk]

ANext == Abs!Next(InitObs, {}, {})
\* Abstract's Init also pins cur/tgt/const, which have no meaning here: only the advertised sizes
Refines == Abs!Advertised /\ [][ANext]_(Abs!avars)
A_Advertised == Abs!Advertised
=============================================================================
