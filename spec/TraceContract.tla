--------------------------- MODULE TraceContract ---------------------------
(***************************************************************************)
(* Trace validation of real executions against Contract.                   *)
(*                                                                         *)
(* The trace (ndjson, one event per public call, written by the harness    *)
(* driver) is read through IOEnv.TRACE.  Several traces may be             *)
(* concatenated: a "begin" event starts a fresh world.                     *)
(*                                                                         *)
(* The actions only BIND: they consume one event and advance the abstract  *)
(* instance state.  Everything a property demands is a named predicate of  *)
(* Contract, checked here in two flavours:                                 *)
(*   H_<name>  hard invariant (TLC stops with a counterexample) - replay   *)
(*   S_<name>  soft invariant: always TRUE, prints one VIOL line per       *)
(*             violating event - batch mode, many traces per JVM           *)
(***************************************************************************)
EXTENDS Contract, Json, IOUtils

Rec == ndJsonDeserialize(IOEnv.TRACE)

VARIABLES l,     \* next line of Rec to consume
          st,    \* instance id -> instance state (or NoInst)
          e,     \* the event just bound
          scr,   \* script of the current trace (from its begin event)
          cnt    \* how often the antecedents of the predicates were true in this trace (vacuity guard)

vars == <<l, st, e, scr, cnt>>

Ids == 0..15
NoEvent == [ev |-> "none", id |-> 0, line |-> 0]

Zero == [procOk |-> 0, withTaus |-> 0, ramped |-> 0, constRatio |-> 0, setOk |-> 0, setRej |-> 0,
         chunkOk |-> 0, chunkRej |-> 0, badFaulty |-> 0, rtSafe |-> 0, peak |-> 0, flush |-> 0]
TraceInit == l = 1 /\ st = [i \in Ids |-> NoInst] /\ e = NoEvent /\ scr = "" /\ cnt = Zero

Cur == Rec[l]
Is(name) == l <= Len(Rec) /\ Cur.ev = name

Begin == /\ Is("begin") /\ l' = l + 1 /\ e' = [ev |-> "begin", id |-> 0, line |-> 0]
         /\ st' = [i \in Ids |-> NoInst] /\ scr' = Cur.script

\* events that carry no contract meaning (twin declarations, numeric guards, kernel probes, thread blocks)
Skip == /\ (Is("end") \/ Is("note") \/ Is("cmp") \/ Is("cmp_poly") \/ Is("kernel")
             \/ Is("par_begin") \/ Is("par_end")) /\ l' = l + 1
        /\ e' = [ev |-> Cur.ev, id |-> 0, line |-> 0] /\ UNCHANGED <<st, scr>>

New == /\ Is("new") /\ l' = l + 1 /\ e' = Cur /\ UNCHANGED scr
       /\ st' = [st EXCEPT ![Cur.id] = IF Cur.res = "ok" THEN NewInst(Cur) ELSE NoInst]

OnInst(name, After(_, _)) ==
  /\ Is(name) /\ st[Cur.id].alive
  /\ l' = l + 1 /\ e' = Cur /\ UNCHANGED scr
  /\ st' = [st EXCEPT ![Cur.id] = WithMin(After(st[Cur.id], Cur), Cur)]

Process  == OnInst("process", AfterProcess)
Partial  == OnInst("partial", AfterProcess)
Bad      == OnInst("bad", AfterBad)
SetRatio == OnInst("set_ratio", AfterSetRatio)
SetChunk == OnInst("set_chunk", AfterSetChunk)
Reset    == OnInst("reset", AfterReset)
Getters  == OnInst("getters", AfterOther)
Alloc    == OnInst("alloc", AfterOther)

Bind == Begin \/ Skip \/ New \/ Process \/ Partial \/ Bad \/ SetRatio \/ SetChunk
          \/ Reset \/ Getters \/ Alloc

B(x) == IF x THEN 1 ELSE 0
\* counters of the events on which the predicates had something to say
Count(c, s, ev) ==
  IF ev.ev = "begin" THEN Zero
  ELSE IF ev.ev \notin {"process", "partial", "bad", "set_ratio", "set_chunk", "reset", "getters", "alloc"} THEN c
  ELSE LET J == s[ev.id] IN
    [procOk     |-> c.procOk + B(ProcOk(ev)),
     withTaus   |-> c.withTaus + B(HasTaus(J, ev)),
     ramped     |-> c.ramped + B(HasTaus(J, ev) /\ J.pre.cur # J.pre.tgt),
     constRatio |-> c.constRatio + B(ProcOk(ev) /\ J.steady /\ J.pre.steady /\ (IsFft(J.kind) \/ J.rp > 0)),
     setOk      |-> c.setOk + B(ev.ev = "set_ratio" /\ ev.res = "ok"),
     setRej     |-> c.setRej + B(ev.ev = "set_ratio" /\ ev.res = "err"),
     chunkOk    |-> c.chunkOk + B(ev.ev = "set_chunk" /\ ev.res = "ok"),
     chunkRej   |-> c.chunkRej + B(ev.ev = "set_chunk" /\ ev.res = "err"),
     badFaulty  |-> c.badFaulty + B(ev.ev = "bad" /\ Faults(J, ev) # {}),
     rtSafe     |-> c.rtSafe + B(RTSafe(ev)),
     peak       |-> c.peak + B(ProcOk(ev) /\ J.signal = "impulse" /\ J.best[2] > 0),
     flush      |-> c.flush + B(ProcOk(ev) /\ J.padded > 0)]

TraceNext == /\ Bind
             /\ cnt' = Count(cnt, st', e')
             /\ (e'.ev = "end" => PrintT("COUNTS|" \o scr \o "|" \o ToString(cnt.procOk) \o "|" \o ToString(cnt.withTaus)
                     \o "|" \o ToString(cnt.ramped) \o "|" \o ToString(cnt.constRatio) \o "|" \o ToString(cnt.setOk)
                     \o "|" \o ToString(cnt.setRej) \o "|" \o ToString(cnt.chunkOk) \o "|" \o ToString(cnt.chunkRej)
                     \o "|" \o ToString(cnt.badFaulty) \o "|" \o ToString(cnt.rtSafe) \o "|" \o ToString(cnt.peak)
                     \o "|" \o ToString(cnt.flush)))

TraceSpec == TraceInit /\ [][TraceNext]_vars

(***************************************************************************)
(* Acceptance: every line was consumed.                                    *)
(***************************************************************************)
Progress == TLCSet(1, l)          \* CONSTRAINT: remembers how far the trace was matched
TraceAccepted ==
  LET n == TLCGet(1) IN
  IF n = Len(Rec) + 1 THEN TRUE
  ELSE /\ PrintT("UNMATCHED|" \o ToString(n) \o "|" \o (IF n <= Len(Rec) THEN Rec[n].ev ELSE "?"))
       /\ FALSE

(***************************************************************************)
(* Property predicates on the event just bound                             *)
(***************************************************************************)
OnCall == e.ev \in {"process", "partial", "bad", "set_ratio", "set_chunk", "reset", "getters", "alloc"}
I == st[e.id]
OnNewOk == e.ev = "new" /\ e.res = "ok"

P(name) ==
  CASE name = "C03_CallOk"       -> OnCall => C03_CallOk(I, e)
    [] name = "C04_Bounds"       -> (OnCall \/ OnNewOk) => C04_Bounds(I, e)
    [] name = "C04_Consumed"     -> OnCall => C04_Consumed(I, e)
    [] name = "C04_Written"      -> OnCall => C04_Written(I, e)
    [] name = "C04_Allocate"     -> OnCall => C04_Allocate(I, e)
    [] name = "C04_LifeBounds"   -> OnCall => C04_LifeBounds(I, e)
    [] name = "C16_Flush"        -> OnCall => C16_Flush(I, e)
    [] name = "C16_VecForward"   -> OnCall => C16_VecForward(I, e)
    [] name = "C16_WrapperShape" -> OnCall => C16_WrapperShape(I, e)
    [] name = "C05_FftSmooth"    -> OnCall => C05_FftSmooth(I, e)
    [] name = "C06_Increasing"   -> OnCall => C06_Increasing(I, e)
    [] name = "C06_StepInRange"  -> OnCall => C06_StepInRange(I, e)
    [] name = "C06_RampMonotone" -> OnCall => C06_RampMonotone(I, e)
    [] name = "C06_RampMoves"  -> OnCall => C06_RampMoves(I, e)
    [] name = "C06_Supplied"     -> OnCall => C06_Supplied(I, e)
    [] name = "C07_NoDrift"      -> OnCall => C07_NoDrift(I, e)
    [] name = "C07_FftExact"     -> OnCall => C07_FftExact(I, e)
    [] name = "C07_FftBlock"     -> OnNewOk => C07_FftBlock(I, e)
    [] name = "C09_NoHeap"       -> OnCall => C09_NoHeap(I, e)
    [] name = "C11_MaskUntouched" -> OnCall => C11_MaskUntouched(I, e)
    [] name = "C12_RatioDomain"  -> OnCall => C12_RatioDomain(I, e)
    [] name = "C12_RejectNoop"   -> OnCall => C12_RejectNoop(I, e)
    [] name = "C12_ChunkDomain"  -> OnCall => C12_ChunkDomain(I, e)
    [] name = "C12_ChunkEffect"  -> OnCall => C12_ChunkEffect(I, e)
    [] name = "C13_ErrVariant"   -> OnCall => C13_ErrVariant(I, e)
    [] name = "C13_Untouched"    -> OnCall => C13_Untouched(I, e)
    [] name = "C13_Ctor"         -> e.ev = "new" => C13_Ctor(e)
    [] name = "C14_Delay"        -> OnCall => C14_Delay(I, e)
    [] name = "C14_Peak"         -> OnCall => C14_Peak(I, e)

KF(name) == IF OnCall THEN KnownFinding(name, I, e) ELSE ""
Where(name) == name \o "|" \o scr \o "|" \o ToString(e.line) \o "|" \o e.ev
Hard(name) == P(name) \/ KF(name) # ""
Soft(name) == P(name) \/ (IF KF(name) # "" THEN PrintT("KNOWN|" \o KF(name) \o "|" \o Where(name))
                                            ELSE PrintT("VIOL|-|" \o Where(name)))

H_C03_CallOk == Hard("C03_CallOk")             S_C03_CallOk == Soft("C03_CallOk")
H_C04_Bounds == Hard("C04_Bounds")             S_C04_Bounds == Soft("C04_Bounds")
H_C04_Consumed == Hard("C04_Consumed")         S_C04_Consumed == Soft("C04_Consumed")
H_C04_Written == Hard("C04_Written")           S_C04_Written == Soft("C04_Written")
H_C04_Allocate == Hard("C04_Allocate")         S_C04_Allocate == Soft("C04_Allocate")
H_C04_LifeBounds == Hard("C04_LifeBounds")     S_C04_LifeBounds == Soft("C04_LifeBounds")
H_C16_Flush == Hard("C16_Flush")               S_C16_Flush == Soft("C16_Flush")
H_C16_VecForward == Hard("C16_VecForward")     S_C16_VecForward == Soft("C16_VecForward")
H_C16_WrapperShape == Hard("C16_WrapperShape") S_C16_WrapperShape == Soft("C16_WrapperShape")
H_C05_FftSmooth == Hard("C05_FftSmooth")       S_C05_FftSmooth == Soft("C05_FftSmooth")
H_C06_Increasing == Hard("C06_Increasing")     S_C06_Increasing == Soft("C06_Increasing")
H_C06_StepInRange == Hard("C06_StepInRange")   S_C06_StepInRange == Soft("C06_StepInRange")
H_C06_RampMonotone == Hard("C06_RampMonotone") S_C06_RampMonotone == Soft("C06_RampMonotone")
H_C06_RampMoves == Hard("C06_RampMoves")   S_C06_RampMoves == Soft("C06_RampMoves")
H_C06_Supplied == Hard("C06_Supplied")         S_C06_Supplied == Soft("C06_Supplied")
H_C07_NoDrift == Hard("C07_NoDrift")           S_C07_NoDrift == Soft("C07_NoDrift")
H_C07_FftExact == Hard("C07_FftExact")         S_C07_FftExact == Soft("C07_FftExact")
H_C07_FftBlock == Hard("C07_FftBlock")         S_C07_FftBlock == Soft("C07_FftBlock")
H_C09_NoHeap == Hard("C09_NoHeap")             S_C09_NoHeap == Soft("C09_NoHeap")
H_C11_MaskUntouched == Hard("C11_MaskUntouched") S_C11_MaskUntouched == Soft("C11_MaskUntouched")
H_C12_RatioDomain == Hard("C12_RatioDomain")   S_C12_RatioDomain == Soft("C12_RatioDomain")
H_C12_RejectNoop == Hard("C12_RejectNoop")     S_C12_RejectNoop == Soft("C12_RejectNoop")
H_C12_ChunkDomain == Hard("C12_ChunkDomain")   S_C12_ChunkDomain == Soft("C12_ChunkDomain")
H_C12_ChunkEffect == Hard("C12_ChunkEffect")   S_C12_ChunkEffect == Soft("C12_ChunkEffect")
H_C13_ErrVariant == Hard("C13_ErrVariant")     S_C13_ErrVariant == Soft("C13_ErrVariant")
H_C13_Untouched == Hard("C13_Untouched")       S_C13_Untouched == Soft("C13_Untouched")
H_C13_Ctor == Hard("C13_Ctor")                 S_C13_Ctor == Soft("C13_Ctor")
H_C14_Delay == Hard("C14_Delay")               S_C14_Delay == Soft("C14_Delay")
H_C14_Peak == Hard("C14_Peak")                 S_C14_Peak == Soft("C14_Peak")

=============================================================================
