----------------------------- MODULE TraceTwin -----------------------------
(***************************************************************************)
(* Trace validation of TWIN executions: two (or more) real resampler       *)
(* instances driven by related call sequences whose observations the       *)
(* properties require to coincide.                                         *)
(*                                                                         *)
(*   reset twin    (C10)  used-then-reset instance  vs  fresh instance     *)
(*   wrapper twin  (C16)  process()/process_partial*()/VecResampler  vs    *)
(*                        process_into_buffer on zero-padded input         *)
(*   control twin  (C17)  f32 instance  vs  f64 instance (counts, getters) *)
(*   channel twin  (C11)  channel c of an n-channel instance  vs  a        *)
(*                        one-channel instance fed that channel's signal   *)
(*   noop twin (C12,C13)  instance that also receives rejected calls  vs   *)
(*                        one that never saw them                          *)
(*   thread twin   (C18)  instance migrating between / running concurrently*)
(*                        on threads  vs  single-threaded reference        *)
(*   stream twins  (C05)  same input, different chunking / FixedIn vs      *)
(*                        FixedOut vs FixedInOut: block digests (FFT, bit  *)
(*                        identical) or evaluation instants (async)        *)
(*                                                                         *)
(* A "note" event {twin: mode, a, b[, c]} declares a relation and starts   *)
(* the comparison: from then on every observation of a and b is recorded.  *)
(* Binding actions only record; the demands are the predicates below.      *)
(***************************************************************************)
EXTENDS PolyTables, FiniteSets, TLC, Json, IOUtils

Rec == ndJsonDeserialize(IOEnv.TRACE)

VARIABLES l, obs, blk, tau, val, rel, e, scr
vars == <<l, obs, blk, tau, val, rel, e, scr>>

Ids == 0..15
ONE == 1048576
BIG == 1073741824
Min(a, b) == IF a < b THEN a ELSE b
Abs(a) == IF a < 0 THEN -a ELSE a
Diff(a, b) == LET di == a[1] - b[1]
              IN IF di > 1000 THEN BIG ELSE IF di < -1000 THEN -BIG ELSE di * ONE + (a[2] - b[2])

Empty == [i \in Ids |-> <<>>]
TraceInit == /\ l = 1 /\ obs = Empty /\ blk = Empty /\ tau = Empty /\ val = Empty /\ rel = {}
             /\ e = [ev |-> "none", id |-> 0, line |-> 0] /\ scr = ""

Cur == Rec[l]
Is(name) == l <= Len(Rec) /\ Cur.ev = name

Begin == /\ Is("begin") /\ l' = l + 1 /\ e' = [ev |-> "begin", id |-> 0, line |-> 0]
         /\ obs' = Empty /\ blk' = Empty /\ tau' = Empty /\ val' = Empty /\ rel' = {} /\ scr' = Cur.script

\* number of observation pairs a relation has compared so far (vacuity guard: reported at the end
\* of every trace; a script whose relations compared nothing is a tool error)
Pairs(r) ==
  CASE r.mode \in {"full", "ctl", "chan", "delay"} -> Min(Len(obs[r.a]), Len(obs[r.b]))
    [] r.mode = "blocks" -> Min(Len(blk[r.a]), Len(blk[r.b]))
    [] r.mode \in {"taus", "nearest"} -> Min(Len(tau[r.a]), Len(tau[r.b]))
    [] r.mode = "poly"   -> Min(Len(tau[r.a]), Len(val[r.b]))
    [] OTHER -> 0
RECURSIVE SumPairs(_)
SumPairs(S) == IF S = {} THEN 0 ELSE LET r == CHOOSE x \in S : TRUE IN Pairs(r) + SumPairs(S \ {r})
MinPairs == IF rel = {} THEN -1
            ELSE LET r == CHOOSE x \in rel : \A y \in rel : Pairs(x) <= Pairs(y) IN Pairs(r)

End == /\ Is("end") /\ l' = l + 1 /\ e' = [ev |-> "end", id |-> 0, line |-> 0]
       /\ PrintT("PAIRS|" \o scr \o "|" \o ToString(SumPairs(rel)) \o "|" \o ToString(MinPairs))
       /\ UNCHANGED <<obs, blk, tau, val, rel, scr>>

\* measurements that are not calls on one instance: kernel probes, numeric comparisons
Aux == /\ (Is("kernel") \/ Is("cmp")) /\ l' = l + 1 /\ e' = Cur
       /\ UNCHANGED <<obs, blk, tau, val, rel, scr>>

\* a note that declares a twin relation clears what was recorded for its two instances
Note ==
  /\ Is("note") /\ l' = l + 1 /\ e' = [ev |-> "note", id |-> 0, line |-> Cur.line]
  /\ UNCHANGED scr
  /\ IF "twin" \in DOMAIN Cur
     THEN /\ rel' = rel \cup {[mode |-> Cur.twin, a |-> Cur.a, b |-> Cur.b,
                               c |-> IF "c" \in DOMAIN Cur THEN Cur.c ELSE 0,
                               deg |-> IF "degree" \in DOMAIN Cur THEN Cur.degree ELSE ""]}
          /\ obs' = [obs EXCEPT ![Cur.a] = <<>>, ![Cur.b] = <<>>]
          /\ blk' = [blk EXCEPT ![Cur.a] = <<>>, ![Cur.b] = <<>>]
          /\ tau' = [tau EXCEPT ![Cur.a] = <<>>, ![Cur.b] = <<>>]
          /\ val' = [val EXCEPT ![Cur.a] = <<>>, ![Cur.b] = <<>>]
     ELSE UNCHANGED <<obs, blk, tau, val, rel>>

\* what is observable of one call
Class(ev) == CASE ev \in {"process", "partial", "bad"} -> "proc"
               [] ev \in {"new", "reset"} -> "init"
               [] OTHER -> ev
\* a call that returned Err is not an observation: by C12/C13 it changed nothing, and a twin that
\* never made it (or made a different failing call) must still agree on everything that follows
Rejected(ev) == ev.res = "err"
Ob(ev) ==
  IF ev.ev \in {"new", "reset"}
  THEN [cls |-> "init", res |-> ev.res, nin |-> 0, nout |-> 0, dig |-> <<>>, g |-> ev.post]
  ELSE [cls |-> Class(ev.ev), res |-> ev.res, nin |-> ev.nin, nout |-> ev.nout, dig |-> ev.dig,
        g |-> ev.post]

Call ==
  /\ l <= Len(Rec)
  /\ Cur.ev \in {"new", "process", "partial", "bad", "set_ratio", "set_chunk", "reset", "getters"}
  /\ l' = l + 1 /\ e' = Cur /\ UNCHANGED <<rel, scr>>
  /\ obs' = IF Rejected(Cur) \/ Cur.ev = "getters" THEN obs
            ELSE [obs EXCEPT ![Cur.id] = Append(@, Ob(Cur))]
  /\ blk' = IF "blocks" \in DOMAIN Cur THEN [blk EXCEPT ![Cur.id] = @ \o Cur.blocks] ELSE blk
  /\ tau' = IF "taus" \in DOMAIN Cur /\ Cur.res = "ok" THEN [tau EXCEPT ![Cur.id] = @ \o Cur.taus]
            ELSE tau
  /\ val' = IF "vals" \in DOMAIN Cur /\ Cur.res = "ok" THEN [val EXCEPT ![Cur.id] = @ \o Cur.vals]
            ELSE val

TraceNext == Begin \/ End \/ Note \/ Call \/ Aux
TraceSpec == TraceInit /\ [][TraceNext]_vars

Progress == TLCSet(1, l)
TraceAccepted ==
  LET n == TLCGet(1) IN
  IF n = Len(Rec) + 1 THEN TRUE
  ELSE /\ PrintT("UNMATCHED|" \o ToString(n) \o "|" \o (IF n <= Len(Rec) THEN Rec[n].ev ELSE "?"))
       /\ FALSE

(***************************************************************************)
(* Twin predicates.  Only relations that involve the instance of the event *)
(* just bound are evaluated, on the common prefix of the two records.      *)
(***************************************************************************)
Touches(r) == e.ev \notin {"begin", "end", "note", "none", "kernel", "cmp"} /\ (e.id = r.a \/ e.id = r.b)
Common(r) == Min(Len(obs[r.a]), Len(obs[r.b]))

\* bit-identical outputs, identical counts, results and getters
TwinFull ==
  \A r \in rel : (r.mode = "full" /\ Touches(r)) =>
    \A k \in 1..Common(r) : obs[r.a][k] = obs[r.b][k]

\* identical control decisions (results, counts, getters); sample values may differ
TwinCtl ==
  \A r \in rel : (r.mode = "ctl" /\ Touches(r)) =>
    \A k \in 1..Common(r) :
      LET x == obs[r.a][k]
          y == obs[r.b][k]
      IN x.cls = y.cls /\ x.res = y.res /\ x.nin = y.nin /\ x.nout = y.nout /\ x.g = y.g

\* C14: output_delay() is a function of the configuration and the ratio in force.  Instance a reaches its
\* ratios through ramped changes, instance b through immediate ones; after every processing call both run at
\* the same ratio (a ramp completes within one chunk), so they must report the same delay.
TwinDelay ==
  \A r \in rel : (r.mode = "delay" /\ Touches(r)) =>
    \A k \in 1..Common(r) :
      LET x == obs[r.a][k]
          y == obs[r.b][k]
      IN (x.cls = "proc" /\ y.cls = "proc" /\ x.res = "ok" /\ y.res = "ok") => x.g.delay = y.g.delay

\* channel c of instance a (n channels) equals channel 0 of instance b (1 channel)
TwinChan ==
  \A r \in rel : (r.mode = "chan" /\ Touches(r)) =>
    \A k \in 1..Common(r) :
      LET x == obs[r.a][k]
          y == obs[r.b][k]
      IN /\ x.cls = y.cls /\ x.res = y.res /\ x.nin = y.nin /\ x.nout = y.nout
         /\ (x.cls = "proc" /\ x.res = "ok") => x.dig[r.c + 1] = y.dig[1]

\* output streams cut into fixed-size blocks: identical digests on the common prefix
TwinBlocks ==
  \A r \in rel : (r.mode = "blocks" /\ Touches(r)) =>
    \A k \in 1..Min(Len(blk[r.a]), Len(blk[r.b])) : blk[r.a][k] = blk[r.b][k]

\* evaluation instants of the two output streams coincide (2^-18 frames; r.c: one quantum of the
\* sub-filter grid for nearest-point selection at ratios whose positions are not exact in binary - there
\* a rounding difference of 1e-13 frame between two chunkings legitimately flips a tie)
TwinTaus ==
  \A r \in rel : (r.mode = "taus" /\ Touches(r)) =>
    \A k \in 1..Min(Len(tau[r.a]), Len(tau[r.b])) : Abs(Diff(tau[r.a][k], tau[r.b][k])) <= 4 + r.c

\* C08, Nearest: "the sample at or just before the instant".  Instance a interpolates linearly (fed the index
\* signal its outputs ARE the instants), instance b is the Nearest resampler with the same configuration and calls
\* (its outputs are the indices of the samples it picked): b must pick floor(instant) - an absolute reference
\* that a shift of the whole Nearest stream by one frame cannot fool.
NearestOk(ta, tb) ==
  LET f == ta[2] IN
  /\ tb[2] = 0
  /\ IF f <= 8 THEN tb[1] \in {ta[1], ta[1] - 1}              \* the instant is a whole frame (within 1e-5)
     ELSE IF f >= 1048576 - 8 THEN tb[1] \in {ta[1], ta[1] + 1}
     ELSE tb[1] = ta[1]
TwinNearest ==
  \A r \in rel : (r.mode = "nearest" /\ Touches(r)) =>
    \A k \in 1..Min(Len(tau[r.a]), Len(tau[r.b])) : NearestOk(tau[r.a][k], tau[r.b][k])

\* C08: instance a is fed the index signal (its outputs are the evaluation instants), instance b
\* the one-hot signal e_h with identical calls: output k of b must be the cardinal polynomial of
\* the hot sample's place in the window of instant k, evaluated at the instant's fractional part
PolyOk(deg, h, t, v) ==
  (t[2] % 1024 = 0 /\ t[1] >= 4) =>
    LET m   == h - (t[1] + Lo(deg)) + 1
        exp == IF m >= 1 /\ m <= NPts(deg) THEN CardFix(deg, m, t[2] \div 1024) ELSE 0
        v16 == v[1] * 65536 + (v[2] \div 16)
    IN Abs(v16 * Den(deg) - exp) <= 3 * Den(deg) + 64
TwinPoly ==
  \A r \in rel : (r.mode = "poly" /\ Touches(r)) =>
    \A k \in 1..Min(Len(tau[r.a]), Len(val[r.b])) : PolyOk(r.deg, r.c, tau[r.a][k], val[r.b][k])

\* C15: one-hot probes of the public kernels: bit-identical to the scalar kernel, exactly zero
\* outside the window [index, index + L); dense waves within the summation-order bound (guard)
KernelEq ==
  e.ev = "kernel" =>
    \A i \in 1..Len(e.dig) :
      e.dig[i] # "absent" =>
        /\ e.dig[i] = e.dig[1]
        /\ e.outside_zero[i]
        /\ e.inside_nonzero[i] = e.inside_nonzero[1]
        /\ e.inside_nonzero[1] * 2 > e.L
        /\ e.dense_milli[i] <= 1000
        /\ e.nan_ok[i]             \* NaN everywhere outside the window does not change the result

\* numeric guards (not the deciding argument): difference of two instances' last outputs in
\* units of epsilon * peak is below the bound the script states
TwinNear == e.ev = "cmp" => (e.n > 0 => e.units <= e.bound)

Where(name) == name \o "|" \o scr \o "|" \o ToString(e.line) \o "|" \o e.ev
Soft(name, ok) == ok \/ PrintT("VIOL|-|" \o Where(name))

H_TwinFull == TwinFull       S_TwinFull == Soft("TwinFull", TwinFull)
H_TwinCtl == TwinCtl         S_TwinCtl == Soft("TwinCtl", TwinCtl)
H_TwinChan == TwinChan       S_TwinChan == Soft("TwinChan", TwinChan)
H_TwinDelay == TwinDelay     S_TwinDelay == Soft("TwinDelay", TwinDelay)
H_TwinBlocks == TwinBlocks   S_TwinBlocks == Soft("TwinBlocks", TwinBlocks)
H_TwinTaus == TwinTaus       S_TwinTaus == Soft("TwinTaus", TwinTaus)
H_TwinPoly == TwinPoly       S_TwinPoly == Soft("TwinPoly", TwinPoly)
H_TwinNearest == TwinNearest S_TwinNearest == Soft("TwinNearest", TwinNearest)
H_KernelEq == KernelEq       S_KernelEq == Soft("KernelEq", KernelEq)
H_TwinNear == TwinNear       S_TwinNear == Soft("TwinNear", TwinNear)

=============================================================================
