------------------------------- MODULE FftInd -------------------------------
(***************************************************************************)
(* The integer machine of the synchronous resamplers (FftBlocks.tla) for   *)
(* ARBITRARY rates, block counts and chunk sizes, with a machine-checked   *)
(* proof (TLAPS) that its invariant is inductive.  FftBlocks.tla is        *)
(* checked by TLC for enumerated configurations; this module removes the   *)
(* enumeration: A = fs_in/gcd and B = fs_out/gcd are any positive          *)
(* integers, K any number of minimal blocks per FFT block, Chunk any chunk *)
(* size.  Fi = K*A and Fo = K*B are the FFT block lengths.                 *)
(*                                                                         *)
(* Proved for every configuration (the model side of C07, C04, C03):       *)
(*   - the frames parked inside the resampler stay below one block,        *)
(*   - drift = totIn*B - totOut*A equals parked*B (FftFixedIn) resp.       *)
(*     parked*A (FftFixedOut): a function of the parked frames, hence      *)
(*     0 <= drift < one block for streams of any length,                   *)
(*   - FftFixedOut always has a whole chunk to deliver,                    *)
(*   - every staging-buffer range stays inside chunk + one block,          *)
(*   - FftFixedIn: output_frames_next <= output_frames_max.                *)
(* The transitions are the operators of FftIndOps.tla.  The proof is in    *)
(* FftIndProofs.tla (tlapm).  TLC checks that FftBlocks.tla takes exactly  *)
(* these transitions (PROPERTY IndRefines there), and FftBlocks is bound   *)
(* to the code by replay.                                                  *)
(***************************************************************************)
EXTENDS FftIndOps

CONSTANTS A, B, K, Chunk, FixedIn   \* FixedIn: TRUE FftFixedIn, FALSE FftFixedOut

VARIABLES saved, needed, drift
vars == <<saved, needed, drift>>

Fi == K * A
Fo == K * B

Init == InitP(Fi, Fo, Chunk, FixedIn, saved, needed, drift)
StepIn == StepInP(A, B, Fi, Fo, Chunk, FixedIn, saved, needed, drift, saved', needed', drift')
StepOut == StepOutP(A, B, Fi, Fo, Chunk, FixedIn, saved, needed, drift, saved', needed', drift')
Reset == ResetP(Fi, Fo, Chunk, FixedIn, saved', needed', drift')

Next == StepIn \/ StepOut \/ Reset
Spec == Init /\ [][Next]_vars

IndInv == IndInvP(A, B, Fi, Fo, Chunk, FixedIn, saved, needed, drift)

C07_Drift == C07_DriftP(A, B, Fi, Fo, FixedIn, drift)
C03_InBuffer == C03_InBufferP(Fi, Fo, Chunk, FixedIn, saved, needed)
C04_Delivers == C04_DeliversP(Fi, Fo, Chunk, FixedIn, saved, needed)
C04_OutBound == C04_OutBoundP(Fi, Fo, Chunk, FixedIn, saved)
Safe == C07_Drift /\ C03_InBuffer /\ C04_Delivers /\ C04_OutBound
=============================================================================
