---------------------------- MODULE FftIndProofs ----------------------------
(***************************************************************************)
(* TLAPS proof that IndInv of FftInd.tla is inductive and implies Safe,    *)
(* for all positive A, B, K, Chunk.  Check with:  tlapm FftIndProofs.tla   *)
(* (all obligations are discharged by the default back ends and Z3; the    *)
(* non-linear steps - associativity, monotonicity of products - are        *)
(* isolated in small lemmas).                                              *)
(***************************************************************************)
EXTENDS FftInd, TLAPS

ASSUME Consts == /\ A \in Nat /\ A > 0 /\ B \in Nat /\ B > 0 /\ K \in Nat /\ K > 0
                 /\ Chunk \in Nat /\ Chunk > 0 /\ FixedIn \in BOOLEAN

(***************************************************************************)
(* Arithmetic lemmas                                                       *)
(***************************************************************************)
LEMMA FiFo == Fi \in Nat /\ Fi > 0 /\ Fo \in Nat /\ Fo > 0 /\ Fi * B = Fo * A
  <1>1 (K * A) * B = (K * B) * A BY Consts, Z3
  <1>2 K * A \in Nat /\ K * A > 0 /\ K * B \in Nat /\ K * B > 0 BY Consts, Z3
  <1> QED BY <1>1, <1>2 DEF Fi, Fo

LEMMA DivFacts == \A x \in Nat, y \in Nat : y > 0 =>
                     /\ x \div y \in Nat
                     /\ (x \div y) * y <= x
                     /\ x < (x \div y) * y + y
  OBVIOUS

LEMMA MulMonoLe == \A a, b, z \in Nat : a >= b => a * z >= b * z
  <1> TAKE a, b, z \in Nat
  <1> HAVE a >= b
  <1> DEFINE d == a - b
  <1>1 d \in Nat /\ a = b + d OBVIOUS
  <1>2 (b + d) * z = b * z + d * z BY Z3
  <1>3 d * z \in Nat BY <1>1, Z3
  <1>4 b * z \in Nat BY Z3
  <1> QED BY <1>1, <1>2, <1>3, <1>4

LEMMA MulMonoLt == \A a, b, z \in Nat : a < b /\ z > 0 => a * z < b * z
  <1> TAKE a, b, z \in Nat
  <1> HAVE a < b /\ z > 0
  <1> DEFINE d == b - a - 1
  <1>1 d \in Nat /\ b = a + d + 1 OBVIOUS
  <1>2 (a + d + 1) * z = a * z + d * z + z BY Z3
  <1>3 d * z \in Nat BY <1>1, Z3
  <1>4 a * z \in Nat BY Z3
  <1> QED BY <1>1, <1>2, <1>3, <1>4

LEMMA CeilFacts == \A x \in Nat, y \in Nat : y > 0 =>
                     /\ CeilDiv(x, y) \in Nat
                     /\ CeilDiv(x, y) * y >= x
                     /\ CeilDiv(x, y) * y < x + y
  <1> TAKE x \in Nat, y \in Nat
  <1> HAVE y > 0
  <1>1 x + y - 1 \in Nat OBVIOUS
  <1> QED BY <1>1, DivFacts DEF CeilDiv

LEMMA DivMul == \A c \in Nat, y \in Nat : y > 0 => (c * y) \div y = c
  <1> TAKE c \in Nat, y \in Nat
  <1> HAVE y > 0
  <1> DEFINE q == (c * y) \div y
  <1>1 c * y \in Nat BY Z3
  <1>2 q \in Nat /\ q * y <= c * y /\ c * y < q * y + y BY <1>1, DivFacts
  <1>3 q <= c
    <2>1 CASE q >= c + 1
      <3>1 q * y >= (c + 1) * y BY <2>1, <1>2, Z3
      <3>2 (c + 1) * y = c * y + y BY Z3
      <3> QED BY <3>1, <3>2, <1>2, <1>1
    <2> QED BY <2>1, <1>2
  <1>4 c <= q
    <2>1 CASE c >= q + 1
      <3>1 c * y >= (q + 1) * y BY <2>1, <1>2, Z3
      <3>2 (q + 1) * y = q * y + y BY <1>2, Z3
      <3> QED BY <3>1, <3>2, <1>2, <1>1
    <2> QED BY <2>1, <1>2
  <1> QED BY <1>2, <1>3, <1>4

LEMMA MulSwap == \A r \in Nat : (r * Fo) * A = (r * Fi) * B /\ (r * Fi) * B = (Fo * r) * A
  <1> TAKE r \in Nat
  <1>1 (r * Fo) * A = r * (Fo * A) BY Consts, FiFo, Z3
  <1>2 (r * Fi) * B = r * (Fi * B) BY Consts, FiFo, Z3
  <1>3 (Fo * r) * A = r * (Fo * A) BY Consts, FiFo, Z3
  <1> QED BY <1>1, <1>2, <1>3, FiFo

(***************************************************************************)
(* The invariant is inductive                                              *)
(***************************************************************************)
THEOREM InitInv == Init => IndInv
  <1> SUFFICES ASSUME Init PROVE IndInv OBVIOUS
  <1>1 Pos(Chunk - 0) = Chunk BY Consts DEF Pos
  <1>2 0 * B = 0 /\ 0 * A = 0 BY Consts
  <1> QED BY <1>1, <1>2, FiFo, Consts DEF Init, InitP, IndInv, IndInvP

LEMMA StepInInv == IndInv /\ StepIn => IndInv'
  <1> SUFFICES ASSUME IndInv, StepIn PROVE IndInv' OBVIOUS
  <1> DEFINE next == saved + Chunk
  <1> DEFINE ready == next \div Fi
  <1>0 FixedIn BY DEF StepIn, StepInP
  <1>1 next \in Nat BY Consts DEF IndInv, IndInvP
  <1>2 ready \in Nat /\ ready * Fi <= next /\ next < ready * Fi + Fi BY <1>1, DivFacts, FiFo
  <1>3 saved' = next - ready * Fi /\ needed' = needed BY DEF StepIn, StepInP
  <1>4 ready * Fi \in Nat BY <1>2, FiFo, Z3
  <1>5 saved' \in Nat /\ saved' < Fi BY <1>1, <1>2, <1>3, <1>4, FiFo
  <1>6 drift' = saved * B + Chunk * B - (ready * Fi) * B BY <1>0, <1>2, MulSwap DEF StepIn, StepInP, IndInv, IndInvP
  <1>7 (next - ready * Fi) * B = saved * B + Chunk * B - (ready * Fi) * B
       BY <1>1, <1>2, <1>4, Consts, Z3 DEF IndInv, IndInvP
  <1> QED BY <1>0, <1>3, <1>5, <1>6, <1>7 DEF IndInv, IndInvP

LEMMA StepOutInv == IndInv /\ StepOut => IndInv'
  <1> SUFFICES ASSUME IndInv, StepOut PROVE IndInv' OBVIOUS
  <1> DEFINE c == CeilDiv(Pos(Chunk - saved), Fo)
  <1> DEFINE blocks == needed \div Fi
  <1> DEFINE processed == saved + Fo * blocks
  <1> DEFINE saved2 == IF processed >= Chunk THEN processed - Chunk ELSE processed
  <1>0 ~FixedIn BY DEF StepOut, StepOutP
  <1>1 Pos(Chunk - saved) \in Nat BY Consts DEF IndInv, IndInvP, Pos
  <1>2 c \in Nat /\ c * Fo >= Pos(Chunk - saved) /\ c * Fo < Pos(Chunk - saved) + Fo
       BY <1>1, CeilFacts, FiFo
  <1>3 needed = c * Fi BY <1>0 DEF IndInv, IndInvP
  <1>4 blocks = c BY <1>2, <1>3, DivMul, FiFo
  <1>5 Fo * blocks = c * Fo /\ c * Fo \in Nat BY <1>2, <1>4, FiFo, Z3
  <1> DEFINE p == c * Fo
  <1>5a processed = saved + p /\ p \in Nat /\ saved \in Nat BY <1>5 DEF IndInv, IndInvP
  <1>5b p >= Chunk - saved /\ p < Pos(Chunk - saved) + Fo
    <2>1 Pos(Chunk - saved) >= Chunk - saved BY <1>5a, Consts DEF Pos
    <2>2 p >= Pos(Chunk - saved) /\ p < Pos(Chunk - saved) + Fo BY <1>2
    <2> HIDE DEF p, c
    <2> QED BY <2>1, <2>2, <1>1, <1>5a, Consts
  <1>5c saved < Fo BY <1>0 DEF IndInv, IndInvP
  <1>6 processed >= Chunk /\ processed - Chunk < Fo /\ processed \in Nat
    <2>1 CASE Chunk - saved > 0
      <3>1 Pos(Chunk - saved) = Chunk - saved BY <2>1 DEF Pos
      <3> HIDE DEF p, processed, c
      <3> QED BY <3>1, <1>5a, <1>5b, Consts, FiFo
    <2>2 CASE ~(Chunk - saved > 0)
      <3>1 Pos(Chunk - saved) = 0 BY <2>2 DEF Pos
      <3>2 c = 0
        <4>1 CASE c >= 1
          <5>1 c * Fo >= 1 * Fo BY <4>1, <1>2, FiFo, MulMonoLe
          <5>2 1 * Fo = Fo BY FiFo
          <5> QED BY <5>1, <5>2, <3>1, <1>2, FiFo
        <4> QED BY <4>1, <1>2
      <3>3 p = 0 BY <3>2, FiFo
      <3> HIDE DEF p, processed, c
      <3> QED BY <3>1, <3>3, <2>2, <1>5a, <1>5b, <1>5c, Consts, FiFo
    <2> QED BY <2>1, <2>2
  <1>7 saved' = processed - Chunk BY <1>6 DEF StepOut, StepOutP
  <1>8 saved' \in Nat /\ saved' < Fo BY <1>6, <1>7, Consts
  <1>9 needed' = CeilDiv(Pos(Chunk - saved'), Fo) * Fi BY <1>6, <1>7 DEF StepOut, StepOutP
  <1>10 drift' = saved * A + (c * Fi) * B - Chunk * A BY <1>0, <1>3 DEF StepOut, StepOutP, IndInv, IndInvP
  <1>11 (c * Fi) * B = (c * Fo) * A BY <1>2, MulSwap
  <1>12 (saved + c * Fo - Chunk) * A = saved * A + (c * Fo) * A - Chunk * A
        BY <1>5, Consts, Z3 DEF IndInv, IndInvP
  <1>13 drift' = saved' * A
    <2>1 saved' = saved + p - Chunk
      <3> HIDE DEF processed, p, c, blocks
      <3>1 processed = saved + p BY <1>5a
      <3>2 saved' = processed - Chunk BY <1>7
      <3> QED BY <3>1, <3>2, <1>5a, Consts
    <2>2 drift' = saved * A + p * A - Chunk * A
      <3>1 (c * Fi) * B = p * A BY <1>11
      <3> HIDE DEF p, c
      <3> QED BY <3>1, <1>10
    <2>3 (saved + p - Chunk) * A = saved * A + p * A - Chunk * A BY <1>12
    <2> HIDE DEF p, processed, c, blocks, saved2
    <2> QED BY <2>1, <2>2, <2>3
  <1> QED BY <1>0, <1>8, <1>9, <1>13 DEF IndInv, IndInvP

LEMMA ResetInv == IndInv /\ Reset => IndInv'
  <1> SUFFICES ASSUME IndInv, Reset PROVE IndInv' OBVIOUS
  <1>1 Pos(Chunk - 0) = Chunk BY Consts DEF Pos
  <1>2 0 * B = 0 /\ 0 * A = 0 BY Consts
  <1> QED BY <1>1, <1>2, FiFo, Consts DEF Reset, ResetP, IndInv, IndInvP

THEOREM NextInv == IndInv /\ [Next]_vars => IndInv'
  <1> SUFFICES ASSUME IndInv, [Next]_vars PROVE IndInv' OBVIOUS
  <1>1 CASE StepIn BY <1>1, StepInInv
  <1>2 CASE StepOut BY <1>2, StepOutInv
  <1>3 CASE Reset BY <1>3, ResetInv
  <1>4 CASE UNCHANGED vars BY <1>4 DEF vars, IndInv, IndInvP
  <1> QED BY <1>1, <1>2, <1>3, <1>4 DEF Next

THEOREM Invariance == Spec => []IndInv
  BY InitInv, NextInv, PTL DEF Spec

(***************************************************************************)
(* ... and implies what the properties need                                *)
(***************************************************************************)
THEOREM InvSafe == IndInv => Safe
  <1> SUFFICES ASSUME IndInv PROVE Safe OBVIOUS
  <1>1 CASE FixedIn
    <2>1 saved \in Nat /\ saved < Fi /\ drift = saved * B BY <1>1 DEF IndInv, IndInvP
    <2>2 saved * B >= 0 /\ saved * B < Fi * B
      <3>1 saved * B \in Nat BY <2>1, Consts, Z3
      <3>2 saved * B < Fi * B BY <2>1, Consts, FiFo, MulMonoLt
      <3> QED BY <3>1, <3>2
    <2>3 C07_Drift BY <1>1, <2>1, <2>2 DEF C07_Drift, C07_DriftP
    <2>4 C03_InBuffer BY <1>1, <2>1, Consts, FiFo DEF C03_InBuffer, C03_InBufferP
    <2>5 C04_Delivers BY <1>1 DEF C04_Delivers, C04_DeliversP
    <2>6 C04_OutBound
      <3> DEFINE x == saved + Chunk
      <3> DEFINE y == Fi - 1 + Chunk
      <3>1 x \in Nat /\ y \in Nat /\ x <= y BY <2>1, Consts, FiFo
      <3>2 x \div Fi \in Nat /\ (x \div Fi) * Fi <= x BY <3>1, DivFacts, FiFo
      <3>3 y \div Fi \in Nat /\ y < (y \div Fi) * Fi + Fi BY <3>1, DivFacts, FiFo
      <3>4 x \div Fi <= y \div Fi
        <4>1 CASE x \div Fi >= y \div Fi + 1
          <5>0 y \div Fi + 1 \in Nat BY <3>3
          <5>1 (x \div Fi) * Fi >= (y \div Fi + 1) * Fi BY <4>1, <5>0, <3>2, FiFo, MulMonoLe
          <5>2 (y \div Fi + 1) * Fi = (y \div Fi) * Fi + Fi BY <3>3, FiFo, Z3
          <5>3 (y \div Fi) * Fi \in Nat BY <3>3, FiFo, Z3
          <5> QED BY <5>1, <5>2, <5>3, <3>1, <3>2, <3>3, FiFo
        <4> QED BY <4>1, <3>2, <3>3
      <3>5 (x \div Fi) * Fo <= (y \div Fi) * Fo BY <3>2, <3>3, <3>4, FiFo, MulMonoLe
      <3> QED BY <3>5 DEF C04_OutBound, C04_OutBoundP
    <2> QED BY <2>3, <2>4, <2>5, <2>6 DEF Safe
  <1>2 CASE ~FixedIn
    <2> DEFINE c == CeilDiv(Pos(Chunk - saved), Fo)
    <2>1 saved \in Nat /\ saved < Fo /\ drift = saved * A /\ needed = c * Fi BY <1>2 DEF IndInv, IndInvP
    <2>2 saved * A >= 0 /\ saved * A < Fo * A
      <3>1 saved * A \in Nat BY <2>1, Consts, Z3
      <3>2 saved * A < Fo * A BY <2>1, Consts, FiFo, MulMonoLt
      <3> QED BY <3>1, <3>2
    <2>3 C07_Drift BY <1>2, <2>1, <2>2 DEF C07_Drift, C07_DriftP
    <2>4 Pos(Chunk - saved) \in Nat BY <2>1, Consts DEF Pos
    <2>5 c \in Nat /\ c * Fo >= Pos(Chunk - saved) /\ c * Fo < Pos(Chunk - saved) + Fo
         BY <2>4, CeilFacts, FiFo
    <2>6 needed \div Fi = c BY <2>1, <2>5, DivMul, FiFo
    <2>7 c * Fo \in Nat BY <2>5, FiFo, Z3
    <2>8 C03_InBuffer BY <1>2, <2>1, <2>5, <2>6, <2>7, Consts, FiFo DEF C03_InBuffer, C03_InBufferP, Pos
    <2>9 C04_Delivers BY <1>2, <2>1, <2>5, <2>6, <2>7, Consts DEF C04_Delivers, C04_DeliversP, Pos
    <2>10 C04_OutBound BY <1>2 DEF C04_OutBound, C04_OutBoundP
    <2> QED BY <2>3, <2>8, <2>9, <2>10 DEF Safe
  <1> QED BY <1>1, <1>2

THEOREM Safety == Spec => []Safe
  BY Invariance, InvSafe, PTL
=============================================================================
