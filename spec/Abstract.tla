------------------------------ MODULE Abstract ------------------------------
(***************************************************************************)
(* The resampler contract as a GENERATIVE specification: the state a user  *)
(* can observe through the getters and the returned counts, one action per *)
(* public call, non-deterministic exactly where the properties leave       *)
(* freedom (how many frames a variable-size chunk yields, what the next    *)
(* advertised sizes are - within the advertised maxima).                   *)
(*                                                                         *)
(* The as-is models are checked by TLC to IMPLEMENT this specification     *)
(* under a refinement mapping (AsyncRefines.tla, FftRefines.tla): every    *)
(* step of the transcribed code is a step the contract allows.  Together   *)
(* with the trace validation of real executions against the same           *)
(* predicates (Contract.tla) this closes the triangle                      *)
(*        code  ~ (bit-exact replay) ~  as-is model  => contract.          *)
(***************************************************************************)
EXTENDS Integers, TLC

VARIABLES prm,       \* [exactOut, p, q, L, adjustable, chunkAdjustable, chunkMax, fixedIn]  (constant)
          inNext, inMax, outNext, outMax,     \* the getters
          cur, tgt,  \* ratio in force at the start / to reach at the end of the next chunk (opaque values)
          chunk,
          drift,     \* totOut*q - totIn*p while the ratio is the original one
          const,
          status     \* "ok" | "dead" (a call died: only possible where a known finding excuses it)

avars == <<prm, inNext, inMax, outNext, outMax, cur, tgt, chunk, drift, const, status>>

Abs(x) == IF x < 0 THEN -x ELSE x

\* C04: the advertised sizes are bounds
Advertised == inNext <= inMax /\ outNext <= outMax /\ inNext >= 0 /\ outNext >= 0
\* C07: bounded accounting error at the original ratio
DriftBound == const => Abs(drift) <= prm.p * (prm.L + 3) + 4 * prm.q

\* process_into_buffer with well-formed arguments: consumes exactly inNext, writes at most outNext
\* (exactly, for fixed-output types), completes the ramp; the next sizes are any advertised ones
Process ==
  /\ status = "ok"
  /\ \E nout \in 0..outNext :
       /\ prm.exactOut => nout = outNext
       /\ drift' = IF const THEN drift + nout * prm.q - inNext * prm.p ELSE 0
  /\ cur' = tgt /\ tgt' = tgt
  /\ inNext' \in 0..inMax /\ outNext' \in 0..outMax
  /\ prm.fixedIn => inNext' = inNext
  /\ (~prm.fixedIn) => outNext' = outNext
  /\ UNCHANGED <<prm, inMax, outMax, chunk, const, status>>

\* a call may die only where a known finding explains it; the instance is then unusable
Die == /\ status = "ok" /\ status' = "dead"
       /\ UNCHANGED <<prm, inMax, outMax>>
       /\ inNext' \in 0..inMax /\ outNext' \in 0..outMax
       /\ cur' = tgt /\ tgt' = tgt /\ chunk' = chunk /\ const' = const /\ drift' \in Int

\* set_resample_ratio: accepted values become the target (and the current ratio unless ramped)
SetRatioOk(r, ramp) ==
  /\ status = "ok" /\ prm.adjustable
  /\ tgt' = r /\ cur' = IF ramp THEN cur ELSE r
  /\ const' = (const /\ r = prm.orig)
  /\ drift' = IF const /\ r = prm.orig THEN drift ELSE 0
  /\ inNext' \in 0..inMax /\ outNext' \in 0..outMax
  /\ prm.fixedIn => inNext' = inNext
  /\ (~prm.fixedIn) => outNext' = outNext
  /\ UNCHANGED <<prm, inMax, outMax, chunk, status>>

\* a rejected setter (or any rejected call) changes nothing (C12, C13)
Rejected == UNCHANGED avars

SetChunkOk(n) ==
  /\ status = "ok" /\ prm.chunkAdjustable /\ n >= 1 /\ n <= prm.chunkMax
  /\ chunk' = n
  /\ IF prm.fixedIn THEN inNext' = n /\ outNext' \in 0..outMax
     ELSE outNext' = n /\ inNext' \in 0..inMax
  /\ UNCHANGED <<prm, inMax, outMax, cur, tgt, drift, const, status>>

\* reset: back to the constructed state (C10); `init` is the record of initial observables
Reset(init) ==
  /\ status = "ok"
  /\ inNext' = init.inNext /\ outNext' = init.outNext /\ cur' = prm.orig /\ tgt' = prm.orig
  /\ chunk' = init.chunk /\ drift' = 0 /\ const' = TRUE
  /\ UNCHANGED <<prm, inMax, outMax, status>>

Ratios == {cur, tgt, cur', tgt'}      \* the values a step can mention (TLC: finite)
Init == status = "ok" /\ Advertised /\ drift = 0 /\ const = TRUE /\ cur = prm.orig /\ tgt = prm.orig

\* after a call has died nothing is promised any more
Dead == status = "dead" /\ UNCHANGED prm

Next(init, ratioSet, chunkSet) ==
  \/ Process \/ Die \/ Rejected \/ Dead
  \/ \E r \in ratioSet, ramp \in BOOLEAN : SetRatioOk(r, ramp)
  \/ \E n \in chunkSet : SetChunkOk(n)
  \/ Reset(init)

=============================================================================
