----------------------------- MODULE FftIndOps -----------------------------
(***************************************************************************)
(* The transitions and the invariant of the synchronous resamplers'        *)
(* integer machine as operators of all their quantities (a constant        *)
(* module): FftInd.tla applies them to symbolic constants and proves the   *)
(* invariant inductive, FftBlocks.tla applies them to its configuration    *)
(* record and lets TLC check that it implements the same machine - one     *)
(* text, two uses.  a, b: reduced rates; fi, fo: FFT block lengths;        *)
(* s, n, d: parked frames, frames needed, drift (s2, n2, d2: next state).  *)
(***************************************************************************)
EXTENDS Integers

CeilDiv(x, y) == (x + y - 1) \div y
Pos(x) == IF x > 0 THEN x ELSE 0

InitP(fi, fo, chunk, fixedIn, s, n, d) ==
  /\ s = 0
  /\ d = 0
  /\ n = IF fixedIn THEN 0 ELSE CeilDiv(chunk, fo) * fi

StepInP(a, b, fi, fo, chunk, fixedIn, s, n, d, s2, n2, d2) ==
  LET next == s + chunk
      ready == next \div fi
  IN /\ fixedIn
     /\ s2 = next - ready * fi
     /\ d2 = d + chunk * b - (ready * fo) * a
     /\ n2 = n

StepOutP(a, b, fi, fo, chunk, fixedIn, s, n, d, s2, n2, d2) ==
  LET blocks == n \div fi
      processed == s + fo * blocks
      saved2 == IF processed >= chunk THEN processed - chunk ELSE processed
  IN /\ ~fixedIn
     /\ s2 = saved2
     /\ n2 = CeilDiv(Pos(chunk - saved2), fo) * fi
     /\ d2 = d + n * b - chunk * a

ResetP(fi, fo, chunk, fixedIn, s2, n2, d2) ==
  /\ s2 = 0 /\ d2 = 0
  /\ n2 = IF fixedIn THEN 0 ELSE CeilDiv(chunk, fo) * fi

IndInvP(a, b, fi, fo, chunk, fixedIn, s, n, d) ==
  /\ s \in Nat
  /\ fixedIn => /\ s < fi
                /\ d = s * b
                /\ n = 0
  /\ ~fixedIn => /\ s < fo
                 /\ d = s * a
                 /\ n = CeilDiv(Pos(chunk - s), fo) * fi

\* what the properties need
C07_DriftP(a, b, fi, fo, fixedIn, d) == d >= 0 /\ d < (IF fixedIn THEN fi * b ELSE fo * a)
C03_InBufferP(fi, fo, chunk, fixedIn, s, n) ==
  IF fixedIn THEN s + chunk <= chunk + fi ELSE s + (n \div fi) * fo <= chunk + fo
C04_DeliversP(fi, fo, chunk, fixedIn, s, n) == ~fixedIn => s + (n \div fi) * fo >= chunk
C04_OutBoundP(fi, fo, chunk, fixedIn, s) ==
  fixedIn => ((s + chunk) \div fi) * fo <= ((fi - 1 + chunk) \div fi) * fo
=============================================================================
