------------------------------ MODULE AsyncPos ------------------------------
(***************************************************************************)
(* As-is model of the position machine of the four asynchronous            *)
(* resamplers (asynchro_fast.rs: FastFixedIn/FastFixedOut,                  *)
(* asynchro_sinc.rs: SincFixedIn/SincFixedOut), transcribed from the code   *)
(* expression by expression: every margin, every ceil/floor/saturating      *)
(* cast, the ramp formulas, the copy_within ranges, the polyphase point     *)
(* selection of interpolation.rs and the kernels' own asserts.              *)
(*                                                                         *)
(* Time is exact fixed point: Q ticks per input frame.  Ratios are p/q,    *)
(* encoded as the integer 1000*p + q (TLC cfg files cannot hold tuples).   *)
(* A configuration is only explored when every quantity is a whole number  *)
(* of ticks (the "exact regime"): there the model predicts the code's       *)
(* consumed/produced counts, last_index and needed_input_size bit for bit.  *)
(*                                                                         *)
(* Content model: buf[c] is the number of the input frame stored in cell c *)
(* RELATIVE to the frame in cell 2L (first frame of the chunk loaded       *)
(* last); frames before the stream are the zero pre-roll.  A correct       *)
(* history shift keeps buf[c] = c - 2L, so "nothing skipped, repeated or   *)
(* stale" (C05, C06) is a state predicate and costs no states.             *)
(***************************************************************************)
EXTENDS Integers, Sequences, FiniteSets, TLC, Json

CONSTANTS Fam,          \* "Fast" | "Sinc"
          Variants,     \* subset of {"In", "Out"}
          Interps,      \* Fast: degrees, Sinc: interpolation types
          Fs,           \* oversampling factors (Sinc)
          L,            \* filter length (Fast: 8)
          ChunkMaxs,    \* construction-time chunk sizes
          Chunks,       \* values for set_chunk_size (Sinc)
          Ratios,       \* ratios for set_resample_ratio, encoded 1000*p+q
          Origs,        \* original ratios
          MaxRels,      \* max relative ratios (encoded)
          Q,            \* ticks per input frame
          MaxDepth,
          Emit

VARIABLES cfg,      \* [variant, interp, F, chunkMax, orig, maxrel]
          li,       \* last_index, in ticks
          cur, tgt, \* resample_ratio, target_ratio (encoded)
          chunk,    \* chunk_size
          needed,   \* needed_input_size (FixedOut)
          fill,     \* current_buffer_fill: frames loaded by the last call
          buf,      \* content model
          prevT,    \* largest step (ticks) of the chunk processed last
          drift,    \* totOut*q - totIn*p while the ratio is the original one
          const,    \* ratio never changed since construction/reset
          obs,      \* verdicts about the call just made
          depth,
          exact,    \* FALSE once a fixed-input ramp with a non-dyadic increment was processed
          hist

vars == <<cfg, li, cur, tgt, chunk, needed, fill, buf, prevT, drift, const, obs, depth, exact, hist>>
view == <<cfg, li, cur, tgt, chunk, needed, fill, buf, prevT, drift, const, obs, exact>>

Min(x, y) == IF x < y THEN x ELSE y
Max(x, y) == IF x > y THEN x ELSE y
Abs(x) == IF x < 0 THEN -x ELSE x
CeilDiv(x, y) == -((-x) \div y)             \* y > 0; \div is floor division
RECURSIVE GCD(_, _)
GCD(x, y) == IF y = 0 THEN x ELSE GCD(y, x % y)
RECURSIVE IsPow2(_)
IsPow2(x) == x = 1 \/ (x > 1 /\ x % 2 = 0 /\ IsPow2(x \div 2))

P(r) == r \div 1000
D(r) == r % 1000
T(r) == (D(r) * Q) \div P(r)                \* 1/ratio in ticks (exact regime: divisible)
TExact(r) == (D(r) * Q) % P(r) = 0
\* p1/q1 <= p2/q2
LeqR(r1, r2) == P(r1) * D(r2) <= P(r2) * D(r1)

IsIn  == cfg.variant = "In"
IsOut == cfg.variant = "Out"
IsSinc == Fam = "Sinc"
F == cfg.F

\* ---- documented range of the ratio (after the fix: compared with the bounds themselves) ----
\* orig/maxrel <= r <= orig*maxrel
InRange(r) == /\ P(cfg.orig) * D(cfg.maxrel) * D(r) <= P(r) * D(cfg.orig) * P(cfg.maxrel)
              /\ P(r) * D(cfg.orig) * D(cfg.maxrel) <= P(cfg.orig) * P(cfg.maxrel) * D(r)

(***************************************************************************)
(* Buffers                                                                 *)
(***************************************************************************)
\* ceil(chunk / r) for r = p/q
CeilChunkOver(n, r) == CeilDiv(n * D(r), P(r))

\* needed_input_size: input time covered by the next chunk (ramped: sum of the steps)
\*   advance = N*t0 + (t1 - t0)*(N + 1)/2
Advance(n, r0, r1) == n * T(r0) + ((T(r1) - T(r0)) * (n + 1)) \div 2
AdvanceExact(n, r0, r1) == ((T(r1) - T(r0)) * (n + 1)) % 2 = 0
NeededOf(lix, n, r0, r1) ==
  IF IsSinc
  THEN Max(0, CeilDiv(lix + Advance(n, r0, r1) + L * Q, Q) + 1)    \* ceil(..) + 1
  ELSE Max(0, CeilDiv(lix + Advance(n, r0, r1) + L * Q, Q))         \* ceil(..) as usize

NeededInit(c) ==
  LET lix == -(L \div 2) * Q
      adv == c.chunkMax * ((D(c.orig) * Q) \div P(c.orig))
  IN IF IsSinc THEN Max(0, CeilDiv(lix + adv + L * Q, Q) + 1)
     ELSE CeilDiv(c.chunkMax * D(c.orig), P(c.orig)) + L \div 2     \* ceil(chunk/r) + L/2

BufLenOf(c) ==
  IF c.variant = "In" THEN c.chunkMax + 2 * L
  ELSE (((P(c.maxrel) + D(c.maxrel)) * NeededInit(c)) \div D(c.maxrel)) + 2 * L
BufLen == BufLenOf(cfg)

Fresh(len) == [c \in 1..len |-> (c - 1) - 2 * L]     \* zero pre-roll counts as frames before 0
STALE == -99999

(***************************************************************************)
(* Getters as the code computes them                                       *)
(***************************************************************************)
\* floor(n * (r0 + r1)/2 + 10)
OutNextIn(n, r0, r1) == ((n * (P(r0) * D(r1) + P(r1) * D(r0))) \div (2 * D(r0) * D(r1))) + 10
InNext  == IF IsIn THEN chunk ELSE needed
InMax   == IF IsIn THEN (IF IsSinc THEN cfg.chunkMax ELSE chunk)
           ELSE CeilDiv((IF IsSinc THEN cfg.chunkMax ELSE chunk) * D(cfg.orig) * P(cfg.maxrel),
                        P(cfg.orig) * D(cfg.maxrel)) + 2 + L \div 2
OutNext == IF IsIn THEN OutNextIn(chunk, cur, tgt) ELSE chunk
OutMax  == IF IsIn
           THEN (((IF IsSinc THEN cfg.chunkMax ELSE chunk) * P(cfg.orig) * P(cfg.maxrel))
                    \div (D(cfg.orig) * D(cfg.maxrel))) + 10
           ELSE (IF IsSinc THEN cfg.chunkMax ELSE chunk)
\* Fast: floor(8*r/2); Sinc: round(max(0, r*(1 - 1/F) - 1))
Delay == IF ~IsSinc THEN (4 * P(cur)) \div D(cur)
         ELSE LET num == P(cur) * (F - 1) - D(cur) * F
                  den == D(cur) * F
              IN IF num <= 0 THEN 0 ELSE (2 * num + den) \div (2 * den)
Getters == [in_next |-> InNext, in_max |-> InMax, out_next |-> OutNext, out_max |-> OutMax,
            delay |-> Delay]

(***************************************************************************)
(* One output frame: which cells are read                                  *)
(***************************************************************************)
FastLo == CASE cfg.interp = "Septic" -> 3 [] cfg.interp = "Quintic" -> 2
            [] cfg.interp = "Cubic" -> 1 [] OTHER -> 0
FastHi == CASE cfg.interp = "Septic" -> 4 [] cfg.interp = "Quintic" -> 3
            [] cfg.interp = "Cubic" -> 2 [] cfg.interp = "Linear" -> 1 [] OTHER -> 0

\* interpolation.rs: (index offset, sub-index) of one intermediate point; the sub-index is
\* wrapped once by +-F
Wrap(s) == IF s < 0 THEN <<-1, s + F>> ELSE IF s >= F THEN <<1, s - F>> ELSE <<0, s>>
SincPoints(idx) ==
  LET fl   == idx \div Q
      frac == idx - fl * Q
      g    == (frac * F) \div Q
  IN CASE cfg.interp = "Cubic"     -> {Wrap(g + s) : s \in -1..2}
       [] cfg.interp = "Quadratic" -> {Wrap(g + s) : s \in 0..2}
       [] cfg.interp = "Linear"    -> {<<0, g>>, IF g + 1 >= F THEN <<1, g + 1 - F>> ELSE <<0, g + 1>>}
       [] OTHER -> LET s == (2 * frac * F + Q) \div (2 * Q)        \* round()
                   IN {IF s >= F THEN <<1, s - F>> ELSE <<0, s>>}

\* [lo, hi] = lowest and highest 0-based cell read by the frame at position idx (ticks,
\* relative to cell 2L); subok = all sub-indices below F
FrameReads(idx) ==
  LET fl == idx \div Q IN
  IF ~IsSinc
  THEN [lo |-> fl - FastLo + 2 * L, hi |-> fl + FastHi + 2 * L, subok |-> TRUE]
  ELSE LET pts == SincPoints(idx)
           offs == {p[1] : p \in pts}
           lo == fl + 2 * L + (CHOOSE o \in offs : \A o2 \in offs : o <= o2)
           hi == fl + 2 * L + (CHOOSE o \in offs : \A o2 \in offs : o >= o2) + L - 1
       IN [lo |-> lo, hi |-> hi, subok |-> \A p \in pts : p[2] >= 0 /\ p[2] < F]

\* the loop of process_into_buffer; st = [idx, t, n, lo, hi, subok]
Clamp(x, a, b) == IF x < a THEN a ELSE IF x > b THEN b ELSE x
Acc(st, idx, t) ==
  LET fr == FrameReads(idx)
  IN [idx |-> idx, t |-> t, n |-> st.n + 1, lo |-> Min(st.lo, fr.lo), hi |-> Max(st.hi, fr.hi),
      subok |-> st.subok /\ fr.subok]

RECURSIVE LoopIn(_, _, _, _, _)
LoopIn(st, inc, tmin, tmax, endIdx) ==
  IF st.idx < endIdx /\ st.n < 4000
  THEN LET t == Clamp(st.t + inc, tmin, tmax)
       IN LoopIn(Acc(st, st.idx + t, t), inc, tmin, tmax, endIdx)
  ELSE st

RECURSIVE LoopOut(_, _, _)
LoopOut(st, inc, left) ==
  IF left > 0 THEN LoopOut(Acc(st, st.idx + st.t + inc, st.t + inc), inc, left - 1) ELSE st

Start(t0) == [idx |-> li, t |-> t0, n |-> 0, lo |-> 1000000, hi |-> -1000000, subok |-> TRUE]

(***************************************************************************)
(* Known findings of the unchanged tree (root-cause predicates, as in      *)
(* Contract.tla, on model quantities)                                      *)
(***************************************************************************)
CeilT(t) == CeilDiv(t, Q)
KReach == IF IsSinc THEN 1 ELSE FastLo
\* KF-D8a: ceil(1/r_prev) - 1/r_now > L - 1 - k
KF_D8a(first) == IsIn /\ CeilT(prevT) * Q - first > (L - 2 - KReach) * Q
\* KF-D8c: backlog converted at the new ratio exceeds the +10 slack
KF_D8c(tminNow) == IsIn /\ (CeilT(prevT) + 1) * Q >= 8 * tminNow
\* KF-D9: oversampling factor 1 with Cubic/Quadratic
KF_D9 == IsSinc /\ F = 1 /\ cfg.interp \in {"Cubic", "Quadratic"}

(***************************************************************************)
(* Initial states                                                          *)
(***************************************************************************)
Configs == {c \in [variant : Variants, interp : Interps, F : Fs, chunkMax : ChunkMaxs,
                   orig : Origs, maxrel : MaxRels] :
              (D(c.orig) * Q) % P(c.orig) = 0}

NoObs == [ev |-> "none", readok |-> TRUE, subok |-> TRUE, supplied |-> TRUE, contig |-> TRUE,
          written |-> TRUE, kf |-> ""]

Init ==
  /\ cfg \in Configs
  /\ li = -(L \div 2) * Q
  /\ cur = cfg.orig /\ tgt = cfg.orig
  /\ chunk = cfg.chunkMax
  /\ needed = IF cfg.variant = "Out" THEN NeededInit(cfg) ELSE cfg.chunkMax
  /\ fill = needed
  /\ buf = Fresh(BufLenOf(cfg))
  /\ prevT = (D(cfg.orig) * Q) \div P(cfg.orig)
  /\ drift = 0 /\ const = TRUE
  /\ obs = NoObs
  /\ depth = 0 /\ exact = TRUE
  /\ hist = <<[op |-> "new", cfg |-> cfg, fam |-> Fam, L |-> L,
               g |-> [in_next |-> (IF cfg.variant = "Out" THEN NeededInit(cfg) ELSE cfg.chunkMax)]]>>

\* must come last in an action: Getters' needs every primed variable
Step(entry) ==
  /\ depth' = depth + 1
  /\ hist' = IF Emit THEN Append(hist, entry @@ [g |-> Getters', li |-> <<li' \div Q, li' % Q>>,
                                                exact |-> exact'])
             ELSE hist

(***************************************************************************)
(* process_into_buffer, fixed input                                        *)
(***************************************************************************)
\* history shift + load: cells [from, from+2L) move to [0, 2L), then `n` new frames at 2L
ShiftLoad(from, n) ==
  [c \in 1..Len(buf) |->
     IF c <= 2 * L
     THEN (IF c + from <= Len(buf) /\ buf[c + from] # STALE THEN buf[c + from] - fill ELSE STALE)
     ELSE IF c <= 2 * L + n THEN (c - 1) - 2 * L
     ELSE STALE]

\* all cells lo..hi (0-based) hold the frame they should
ContigRange(b, lo, hi) ==
  \A c \in Max(lo, 0)..Min(hi, Len(b) - 1) : b[c + 1] = c - 2 * L

ProcessIn ==
  LET t0 == T(cur)
      t1 == T(tgt)
      \* t_ratio_increment = (t1 - t0) / (chunk * (r0 + r1)/2)
      num == (t1 - t0) * 2 * D(cur) * D(tgt)
      den == chunk * (P(cur) * D(tgt) + P(tgt) * D(cur))
      inc == num \div den
      tmin == Min(t0, t1)
      tmax == Max(t0, t1)
      endIdx == (chunk - (L + 1) - CeilT(tmax)) * Q
      nb == ShiftLoad(fill, chunk)
      st == LoopIn(Start(t0), inc, tmin, tmax, endIdx)
      onext == OutNextIn(chunk, cur, tgt)
      readok == st.n = 0 \/ (st.lo >= 0 /\ (IF IsSinc THEN st.hi + 1 < Len(buf) ELSE st.hi < Len(buf)))
      kf == IF KF_D9 THEN "KF-D9"
            ELSE IF ~readok /\ st.lo < 0 /\ KF_D8a(Min(t0, t1)) THEN "KF-D8a"
            ELSE IF st.n > onext /\ KF_D8c(tmin) THEN "KF-D8c"
            ELSE ""
  IN /\ IsIn
     /\ num % den = 0                       \* exact regime only
     /\ buf' = nb
     /\ fill' = chunk
     /\ li' = st.idx - chunk * Q
     /\ cur' = tgt
     /\ prevT' = tmax
     /\ drift' = IF const THEN drift + st.n * D(cfg.orig) - chunk * P(cfg.orig) ELSE 0
     /\ obs' = [ev |-> "process", readok |-> readok, subok |-> st.subok,
                supplied |-> st.n = 0 \/ st.hi <= 2 * L + chunk - 1,
                contig |-> st.n = 0 \/ ContigRange(nb, st.lo, st.hi),
                written |-> st.n <= onext, kf |-> kf]
     \* the increment in FRAMES, num / (den * Q), must be a dyadic rational for f64 to be exact
     /\ exact' = (exact /\ (t0 = t1 \/ IsPow2((den * Q) \div GCD(Abs(num), den * Q))))
     /\ UNCHANGED <<cfg, tgt, chunk, needed, const>>
     /\ Step([op |-> "process", nin |-> chunk, nout |-> st.n,
              dies |-> ~(readok /\ st.subok /\ st.n <= onext)])

(***************************************************************************)
(* process_into_buffer, fixed output                                       *)
(***************************************************************************)
ProcessOut ==
  LET t0 == T(cur)
      t1 == T(tgt)
      inc == (t1 - t0) \div chunk
      nb == ShiftLoad(fill, needed)
      st == LoopOut(Start(t0), inc, chunk)
      lix == st.idx - needed * Q
      readok == st.lo >= 0 /\ (IF IsSinc THEN st.hi + 1 < Len(buf) ELSE st.hi < Len(buf))
  IN /\ IsOut
     /\ (t1 - t0) % chunk = 0               \* exact regime only
     /\ AdvanceExact(chunk, tgt, tgt)
     /\ 2 * L + needed <= Len(buf)          \* else copy_from_slice panics: see C03_LoadFits
     /\ buf' = nb
     /\ fill' = needed
     /\ li' = lix
     /\ cur' = tgt
     /\ prevT' = Max(t0, t1)
     /\ needed' = NeededOf(lix, chunk, tgt, tgt)
     /\ drift' = IF const THEN drift + chunk * D(cfg.orig) - needed * P(cfg.orig) ELSE 0
     /\ obs' = [ev |-> "process", readok |-> readok, subok |-> st.subok,
                supplied |-> st.hi <= 2 * L + needed - 1,
                contig |-> ContigRange(nb, st.lo, st.hi),
                written |-> TRUE, kf |-> IF KF_D9 THEN "KF-D9" ELSE ""]
     /\ UNCHANGED <<cfg, tgt, chunk, const, exact>>
     /\ Step([op |-> "process", nin |-> needed, nout |-> chunk,
              dies |-> ~(readok /\ st.subok)])

(***************************************************************************)
(* setters and reset                                                       *)
(***************************************************************************)
SetRatio(r, ramp) ==
  /\ TExact(r)
  /\ IF InRange(r)
     THEN /\ tgt' = r
          /\ cur' = IF ramp THEN cur ELSE r
          /\ const' = (const /\ r = cfg.orig)
          /\ drift' = IF const /\ r = cfg.orig THEN drift ELSE 0
          /\ needed' = IF IsOut THEN NeededOf(li, chunk, IF ramp THEN cur ELSE r, r) ELSE needed
          \* exact regime: the ramp of the next fixed-output chunk must be a whole number of ticks
          /\ IsOut => /\ (T(r) - T(IF ramp THEN cur ELSE r)) % chunk = 0
                      /\ AdvanceExact(chunk, IF ramp THEN cur ELSE r, r)
     ELSE UNCHANGED <<tgt, cur, const, drift, needed>>
  /\ obs' = [NoObs EXCEPT !.ev = "set_ratio"]
  /\ UNCHANGED <<cfg, li, chunk, fill, buf, prevT, exact>>
  /\ Step([op |-> "set_ratio", p |-> P(r), q |-> D(r), ramp |-> ramp, ok |-> InRange(r)])

SetChunk(n) ==
  /\ IsSinc
  /\ IF n >= 1 /\ n <= cfg.chunkMax
     THEN /\ chunk' = n
          /\ needed' = IF IsOut THEN NeededOf(li, n, cur, tgt) ELSE needed
          /\ IsOut => /\ (T(tgt) - T(cur)) % n = 0 /\ AdvanceExact(n, cur, tgt)
     ELSE UNCHANGED <<chunk, needed>>
  /\ obs' = [NoObs EXCEPT !.ev = "set_chunk"]
  /\ UNCHANGED <<cfg, li, cur, tgt, fill, buf, prevT, drift, const, exact>>
  /\ Step([op |-> "set_chunk", n |-> n, ok |-> (n >= 1 /\ n <= cfg.chunkMax)])

Reset ==
  /\ li' = -(L \div 2) * Q
  /\ cur' = cfg.orig /\ tgt' = cfg.orig
  /\ chunk' = IF IsSinc THEN cfg.chunkMax ELSE chunk
  /\ needed' = IF IsOut THEN NeededOf(-(L \div 2) * Q, IF IsSinc THEN cfg.chunkMax ELSE chunk,
                                      cfg.orig, cfg.orig)
               ELSE needed
  /\ fill' = IF IsOut THEN needed' ELSE cfg.chunkMax
  /\ buf' = Fresh(Len(buf))
  /\ prevT' = T(cfg.orig)
  /\ drift' = 0 /\ const' = TRUE /\ exact' = TRUE
  /\ obs' = [NoObs EXCEPT !.ev = "reset"]
  /\ UNCHANGED cfg
  /\ Step([op |-> "reset"])

Next ==
  \/ ProcessIn
  \/ ProcessOut
  \/ \E r \in Ratios, ramp \in BOOLEAN : SetRatio(r, ramp)
  \/ \E n \in Chunks : SetChunk(n)
  \/ Reset

Spec == Init /\ [][Next]_vars

\* a call that dies ends the life of the instance: do not explore beyond it
Alive == obs.readok /\ obs.subok /\ obs.written     \* ACTION_CONSTRAINT (on the source state)
DepthBound == (MaxDepth = 0 \/ depth <= MaxDepth)   \* CONSTRAINT

(***************************************************************************)
(* Invariants: the Contract predicates on model state.  A violation that   *)
(* a known finding explains (obs.kf # "") is not a violation of the        *)
(* unchanged tree; the completeness obligation is exactly that every       *)
(* violation the transcribed design can produce carries such a cause.      *)
(***************************************************************************)
Excused == obs.kf # ""

C03_ReadInBuffer == obs.readok \/ Excused
C03_SubIndex     == obs.subok \/ Excused
C03_LoadFits     == IsOut => 2 * L + needed <= Len(buf)
C06_Supplied     == (obs.supplied /\ obs.contig) \/ Excused \/ ~obs.readok
C04_Written      == obs.written \/ Excused
C04_Bounds       == (InNext <= InMax /\ OutNext <= OutMax)
C07_NoDrift      == const => Abs(drift) <= P(cfg.orig) * (L + 3) + 4 * D(cfg.orig)
\* last_index stays within the history the buffer keeps (basis of the KF-D8a bound)
PosBounded       == li >= -(L + 1 + CeilT(prevT)) * Q - Q /\ li < Q

C10_ResetIsInit ==
  [][Reset => /\ li' = -(L \div 2) * Q /\ cur' = cfg.orig /\ tgt' = cfg.orig
              /\ (IsSinc => chunk' = cfg.chunkMax)
              /\ (IsOut /\ chunk' = cfg.chunkMax) => needed' = NeededInit(cfg)]_vars

EmitScript == Emit => PrintT("REPLAY|" \o ToJson(hist))

=============================================================================
