------------------------------- MODULE Fleet -------------------------------
(***************************************************************************)
(* N resampler instances driven by M threads (C18).                        *)
(*                                                                         *)
(* A resampler is a value: all of its state lives in the struct (the       *)
(* `Resampler` trait requires Send, nothing is shared but the process-wide *)
(* FFT planner caches and the CPU-feature detection, both idempotent       *)
(* lookups).  The model therefore has one local state per instance - the   *)
(* list of operations applied so far - plus the two process-wide caches,   *)
(* and threads that pick up an instance at a call boundary, run its next   *)
(* call and put it down again.  TLC (i) checks that every interleaving and *)
(* every migration leaves each instance with the state of its sequential   *)
(* run (Isolation) and that call steps of different instances commute      *)
(* (Diamond), and (ii) enumerates the schedules: each complete behaviour   *)
(* is printed and executed by the harness with real OS threads handing the *)
(* real resamplers over at exactly those call boundaries (steps that the   *)
(* model shows to be independent are run truly concurrently).              *)
(***************************************************************************)
EXTENDS Integers, Sequences, FiniteSets, TLC, Json

CONSTANTS N,        \* instances 1..N
          M,        \* threads 1..M
          K,        \* calls per instance
          Emit

VARIABLES pc,       \* pc[i]: number of calls instance i has completed
          local,    \* local[i]: the calls applied to instance i, in order
          holder,   \* holder[i]: thread that made the last call (0 = none yet)
          planner,  \* process-wide FFT planner cache: "cold" | "warm"
          cpuid,    \* process-wide CPU feature detection cache
          hist      \* the schedule: <<instance, thread>> per step

vars == <<pc, local, holder, planner, cpuid, hist>>

Inst == 1..N
Thr == 1..M

Init == /\ pc = [i \in Inst |-> 0] /\ local = [i \in Inst |-> <<>>]
        /\ holder = [i \in Inst |-> 0] /\ planner = "cold" /\ cpuid = "cold"
        /\ hist = <<>>

\* thread t picks up instance i (wherever it was), makes its next call, puts it down
Call(t, i) ==
  /\ pc[i] < K
  /\ pc' = [pc EXCEPT ![i] = @ + 1]
  /\ local' = [local EXCEPT ![i] = Append(@, pc[i] + 1)]      \* the call only sees its own instance
  /\ holder' = [holder EXCEPT ![i] = t]
  /\ planner' = "warm"                                          \* idempotent cache fills
  /\ cpuid' = "warm"
  /\ hist' = Append(hist, <<i, t>>)

Next == \E t \in Thr, i \in Inst : Call(t, i)
Spec == Init /\ [][Next]_vars

\* every instance is exactly where its own sequential run would be, whatever the schedule
Isolation == \A i \in Inst : local[i] = [k \in 1..pc[i] |-> k]

\* a call changes nothing of any other instance
Diamond == [][\A t \in Thr, i \in Inst : Call(t, i) =>
                 \A j \in Inst \ {i} : local'[j] = local[j] /\ pc'[j] = pc[j]]_vars

Done == \A i \in Inst : pc[i] = K
EmitSchedule == (Emit /\ Done) => PrintT("REPLAY|" \o ToJson(hist))

=============================================================================
