------------------------------ MODULE Contract ------------------------------
(***************************************************************************)
(* The resampler CONTRACT: what a user of rubato may rely on, phrased over *)
(* the observable state of one resampler instance and the event (public    *)
(* call + its observable effects) that was just bound to it.               *)
(*                                                                         *)
(* Nothing here fixes arithmetic the properties leave open (margins, the   *)
(* exact number of frames of a variable-size chunk, ...): a refactor that  *)
(* keeps the properties is accepted.  Every demand is a named predicate    *)
(* tagged with its property id; the trace specifications evaluate them on  *)
(* every state of every recorded real execution, the as-is specifications  *)
(* (AsyncPos, FftBlocks) evaluate the same formulas on model states.       *)
(*                                                                         *)
(* Reals: instants and reciprocal ratios are fixed-point pairs             *)
(* <<floor(v), floor(frac(v) * 2^20)>>; TLC integers are 32 bit, so only   *)
(* DIFFERENCES of pairs are turned into a single integer.                  *)
(***************************************************************************)
EXTENDS Integers, Sequences, FiniteSets, TLC

ONE == 1048576          \* 2^20 units per frame
BIG == 1073741824       \* 2^30, "out of range"

Min(a, b) == IF a < b THEN a ELSE b
Max(a, b) == IF a > b THEN a ELSE b
Abs(a) == IF a < 0 THEN -a ELSE a

AsyncKinds == {"FastFixedIn", "FastFixedOut", "SincFixedIn", "SincFixedOut"}
FftKinds   == {"FftFixedIn", "FftFixedOut", "FftFixedInOut"}
IsAsync(k) == k \in AsyncKinds
IsFft(k)   == k \in FftKinds
IsSinc(k)  == k \in {"SincFixedIn", "SincFixedOut"}
IsFast(k)  == k \in {"FastFixedIn", "FastFixedOut"}
IsFixedIn(k) == k \in {"FastFixedIn", "SincFixedIn"}
\* types whose written count is exactly output_frames_next (C04)
ExactOut(k) == k \in {"FastFixedOut", "SincFixedOut", "FftFixedIn", "FftFixedOut", "FftFixedInOut"}

RECURSIVE GCD(_, _)
GCD(a, b) == IF b = 0 THEN a ELSE GCD(b, a % b)
CeilDiv(a, b) == (a + b - 1) \div b

(***************************************************************************)
(* Fixed-point pairs                                                       *)
(***************************************************************************)
Diff(a, b) == LET di == a[1] - b[1]
              IN IF di > 1000 THEN BIG ELSE IF di < -1000 THEN -BIG
                 ELSE di * ONE + (a[2] - b[2])
Val(t) == IF t[1] > 1000 THEN BIG ELSE IF t[1] < -1000 THEN -BIG ELSE t[1] * ONE + t[2]

(***************************************************************************)
(* f64 values as four 16-bit words, most significant first.  Positive      *)
(* finite doubles are ordered like their bit patterns, so TLC decides the  *)
(* documented range test itself, bit-exactly (C12).                        *)
(***************************************************************************)
Neg(w)      == w[1] >= 32768
Expo(w)     == (w[1] % 32768) \div 16
NaNOrInf(w) == Expo(w) = 2047
IsZero(w)   == (w[1] % 32768) = 0 /\ w[2] = 0 /\ w[3] = 0 /\ w[4] = 0
PosFinite(w) == ~Neg(w) /\ ~NaNOrInf(w) /\ ~IsZero(w)
LexLE(a, b) == \/ a[1] < b[1]
               \/ a[1] = b[1] /\ \/ a[2] < b[2]
                                 \/ a[2] = b[2] /\ \/ a[3] < b[3]
                                                   \/ a[3] = b[3] /\ a[4] <= b[4]
InRange(x, lo, hi) == PosFinite(x) /\ LexLE(lo, x) /\ LexLE(x, hi)
W_ONE == <<16368, 0, 0, 0>>            \* 1.0
LessThanOne(w) == Neg(w) \/ IsZero(w) \/ (~NaNOrInf(w) /\ LexLE(w, W_ONE) /\ w # W_ONE)
NonPositive(w) == IsZero(w) \/ (Neg(w) /\ ~(NaNOrInf(w) /\ (w[1] % 16 # 0 \/ w[2] # 0 \/ w[3] # 0 \/ w[4] # 0)))

(***************************************************************************)
(* Instance state                                                          *)
(***************************************************************************)
NoInst == [alive |-> FALSE]

\* interpolation window reach of the polynomial resamplers (C08 statement): samples
\* floor(tau)-lo .. floor(tau)+hi
FastHi(deg) == CASE deg = "Septic" -> 4 [] deg = "Quintic" -> 3 [] deg = "Cubic" -> 2
                 [] deg = "Linear" -> 1 [] OTHER -> 0
FastLo(deg) == CASE deg = "Septic" -> 3 [] deg = "Quintic" -> 2 [] deg = "Cubic" -> 1
                 [] OTHER -> 0

\* an instant is "warm" once its interpolation window no longer touches frames before -1
\* (the index signal carries n+1, so the zero pre-roll continues it down to frame -1 only)
WarmAt(I) == IF IsFast(I.kind) THEN FastLo(I.degree) + 1 ELSE 2

Snap(I) == [cur |-> I.cur, tgt |-> I.tgt, lastTau |-> I.lastTau, warm |-> I.warm,
            totIn |-> I.totIn, totOut |-> I.totOut, g |-> I.g, chunk |-> I.chunk,
            const |-> I.const, flushed |-> I.flushed, prevEndT |-> I.prevEndT,
            best |-> I.best, supplied |-> I.supplied, padded |-> I.padded, steady |-> I.steady]

NewInst(n) ==
  [alive |-> TRUE, kind |-> n.kind, T |-> n.T, ch |-> n.ch,
   L |-> IF IsFast(n.kind) THEN 8 ELSE n.L, F |-> n.F, interp |-> n.interp,
   degree |-> n.degree, probe |-> n.probe, signal |-> n.signal, imp |-> n.imp,
   chunkMax |-> n.chunk, chunk |-> n.chunk, fs_in |-> n.fs_in, fs_out |-> n.fs_out,
   sub |-> n.sub, orig |-> n.orig, maxrel |-> n.maxrel,
   cur |-> n.orig.t, tgt |-> n.orig.t, prevEndT |-> n.orig.t, const |-> TRUE,
   \* the ratio in force since the start of the stream (construction/reset), as p/q when known:
   \* a ratio set before the first frame is processed starts a stream at that constant ratio
   steady |-> TRUE, rp |-> n.orig.p, rq |-> n.orig.q,
   totIn |-> 0, totOut |-> 0, lastTau |-> <<0, 0>>, warm |-> FALSE, flushed |-> FALSE,
   best |-> <<0, 0>>,          \* largest |output| so far: <<global output index, size>> (impulse runs)
   minInMax |-> n.post.in_max,   \* smallest input_frames_max / output_frames_max ever advertised: a buffer
   minOutMax |-> n.post.out_max, \* allocated at that moment must do for the whole life of the instance
   supplied |-> 0,             \* frames of real signal consumed
   padded |-> 0,               \* frames of zero padding consumed after them (partial / flush calls)
   g |-> n.post,
   pre |-> [cur |-> n.orig.t, tgt |-> n.orig.t, lastTau |-> <<0, 0>>, warm |-> FALSE,
            totIn |-> 0, totOut |-> 0, g |-> n.post, chunk |-> n.chunk, const |-> TRUE,
            flushed |-> FALSE, prevEndT |-> n.orig.t, best |-> <<0, 0>>, supplied |-> 0, padded |-> 0,
            steady |-> TRUE]]

IsProc(ev) == ev.ev \in {"process", "partial"}
ProcOk(ev) == IsProc(ev) /\ ev.res = "ok"

\* ---- binding: how an event advances the abstract state (no demands here) ----
AfterProcess(I, ev) ==
  IF ev.res # "ok" THEN [I EXCEPT !.pre = Snap(I), !.g = ev.post]
  ELSE
    LET n == Len(ev.taus)
        tracked == n > 0 /\ n = ev.nout
    IN [I EXCEPT !.pre = Snap(I), !.g = ev.post,
          !.totIn = @ + ev.nin, !.totOut = @ + ev.nout,
          !.cur = I.tgt,
          \* largest step of the chunk just processed (bounds the position left behind)
          !.prevEndT = IF Val(I.cur) > Val(I.tgt) THEN I.cur ELSE I.tgt,
          !.lastTau = IF tracked THEN ev.taus[n] ELSE @,
          !.warm = IF ev.nout = 0 THEN @
                   ELSE IF ~tracked THEN FALSE
                   ELSE (@ \/ \E k \in 1..n : ev.taus[k][1] >= WarmAt(I)),
          !.flushed = @ \/ ev.ev = "partial" \/ ev.zero_from >= 0,
          !.supplied = @ + ev.supplied,
          !.padded = @ + (ev.nin - ev.supplied),
          !.best = IF Len(ev.peak) = 2 /\ ev.peak[2] > @[2]
                   THEN <<I.totOut + ev.peak[1], ev.peak[2]>> ELSE @]

AfterSetRatio(I, ev) ==
  IF ev.res # "ok" THEN [I EXCEPT !.pre = Snap(I), !.g = ev.post]
  ELSE LET fresh == I.totIn = 0 /\ I.totOut = 0 /\ I.steady
           same == ev.eff.w = I.orig.w /\ I.rp = I.orig.p /\ I.rq = I.orig.q
       IN [I EXCEPT !.pre = Snap(I), !.g = ev.post,
          !.tgt = ev.eff.t,
          !.cur = IF ev.ramp THEN @ ELSE ev.eff.t,
          !.const = @ /\ ev.eff.w = I.orig.w,
          !.steady = IF same THEN @ ELSE (fresh /\ ~ev.ramp),
          !.rp = IF same THEN @ ELSE ev.eff.p,
          !.rq = IF same THEN @ ELSE ev.eff.q]

AfterSetChunk(I, ev) ==
  IF ev.res # "ok" THEN [I EXCEPT !.pre = Snap(I), !.g = ev.post]
  ELSE [I EXCEPT !.pre = Snap(I), !.g = ev.post, !.chunk = ev.n]

AfterReset(I, ev) ==
  IF ev.res # "ok" THEN [I EXCEPT !.pre = Snap(I), !.g = ev.post]
  ELSE [I EXCEPT !.pre = Snap(I), !.g = ev.post, !.cur = I.orig.t, !.tgt = I.orig.t,
          !.prevEndT = I.orig.t, !.const = TRUE, !.totIn = 0, !.totOut = 0,
          !.lastTau = <<0, 0>>, !.warm = FALSE, !.flushed = FALSE, !.chunk = I.chunkMax,
          !.best = <<0, 0>>, !.supplied = 0, !.padded = 0,
          !.steady = TRUE, !.rp = I.orig.p, !.rq = I.orig.q]

AfterOther(I, ev) == [I EXCEPT !.pre = Snap(I), !.g = ev.post]
\* every binding also records the smallest maxima advertised so far
WithMin(J, ev) == [J EXCEPT !.minInMax = Min(@, ev.post.in_max), !.minOutMax = Min(@, ev.post.out_max)]
\* a "bad" call whose shape turns out to be acceptable (e.g. output short by 1 when 0 frames are
\* due) is an ordinary processing call
AfterBad(I, ev) == IF ev.res = "ok" THEN AfterProcess(I, ev) ELSE AfterOther(I, ev)

(***************************************************************************)
(* C03  no panic / abort / spurious Err on a valid call                    *)
(***************************************************************************)
C03_CallOk(I, ev) ==
  /\ (IsProc(ev) /\ ev.wellformed) => ev.res = "ok"
  /\ ev.res \notin {"panic", "abort"}

(***************************************************************************)
(* C04  advertised frame counts                                            *)
(***************************************************************************)
C04_Bounds(I, ev) ==
  /\ ev.post.in_next <= ev.post.in_max
  /\ ev.post.out_next <= ev.post.out_max
  /\ ev.post.in_next >= 0 /\ ev.post.out_next >= 0

\* "buffers obtained from input_buffer_allocate / output_buffer_allocate are sufficient for the whole
\* life of the resampler": what is needed now never exceeds ANY maximum advertised earlier
C04_LifeBounds(I, ev) ==
  /\ ev.post.in_next <= I.minInMax
  /\ ev.post.out_next <= I.minOutMax

C04_Consumed(I, ev) == ProcOk(ev) => ev.nin = ev.pre.in_next

ActiveCh(ev, c) == IF ev.has_mask /\ c <= Len(ev.mask) THEN ev.mask[c] ELSE TRUE

C04_Written(I, ev) ==
  ProcOk(ev) =>
    /\ ev.nout <= ev.pre.out_next
    /\ ExactOut(I.kind) => ev.nout = ev.pre.out_next
    /\ ~ev.dirty_beyond
    /\ \A c \in 1..Len(ev.hi) : ActiveCh(ev, c) => ev.hi[c] = ev.nout

\* buffers from input_buffer_allocate / output_buffer_allocate are sufficient for the whole life
\* of the resampler: filled ones have exactly the maximum length, empty ones that capacity
C04_Allocate(I, ev) ==
  ev.ev = "alloc" =>
    /\ ev.in_filled[1] = I.ch /\ ev.out_filled[1] = I.ch /\ ev.in_empty[1] = I.ch /\ ev.out_empty[1] = I.ch
    /\ ev.in_filled[2] = ev.pre.in_max /\ ev.in_filled[3] = ev.pre.in_max
    /\ ev.out_filled[2] = ev.pre.out_max /\ ev.out_filled[3] = ev.pre.out_max
    /\ ev.in_empty[3] = 0 /\ ev.in_empty[4] >= ev.pre.in_max
    /\ ev.out_empty[3] = 0 /\ ev.out_empty[4] >= ev.pre.out_max

(***************************************************************************)
(* C06  ratio changes: continuous forward-only time warp                   *)
(***************************************************************************)
FirstWarm(ts, w) ==
  IF \E k \in 1..Len(ts) : ts[k][1] >= w
  THEN CHOOSE k \in 1..Len(ts) : ts[k][1] >= w /\ \A j \in 1..(k - 1) : ts[j][1] < w
  ELSE Len(ts) + 1

\* the instants whose spacing can be judged: the last one of the previous call (if it was
\* warm) followed by the warm instants of this call
TauSeq(I, ev) ==
  LET ts == ev.taus
      f  == IF I.pre.warm THEN 1 ELSE FirstWarm(ts, WarmAt(I))
      body == SubSeq(ts, f, Len(ts))
  IN IF I.pre.warm THEN <<I.pre.lastTau>> \o body ELSE body

IsNearest(I) == IF IsFast(I.kind) THEN I.degree = "Nearest" ELSE I.interp = "Nearest"
\* resolution of one observed instant, in units
Quant(I) == IF ~IsNearest(I) THEN 0 ELSE IF IsFast(I.kind) THEN ONE ELSE (ONE \div I.F) + 1
\* measurement error of one instant (quantisation of the log + rounding of the sample type)
EpsAt(I, tau) == IF I.T = 64 THEN 2 ELSE 64 + 16 * Max(tau[1], 0)

HasTaus0(I, ev) == ProcOk(ev) /\ IsAsync(I.kind) /\ I.signal = "index" /\ ~I.pre.flushed
                     /\ ~I.flushed /\ Len(ev.taus) > 0 /\ Len(ev.taus) = ev.nout
\* an instant is a position in a stream of fewer than 2^29 frames; anything else (the driver logs
\* NaN/infinite/huge values as +-2^30) is not an instant at all.  Reported once, by C06_Increasing;
\* the other predicates then have nothing to measure (and TLC's 32-bit integers are not overrun).
SaneTau(t) == t[1] > -536870912 /\ t[1] < 536870912
TausSane(I, ev) == /\ \A k \in 1..Len(ev.taus) : SaneTau(ev.taus[k])
                   /\ (I.pre.warm => SaneTau(I.pre.lastTau))
                   /\ SaneTau(I.pre.cur) /\ SaneTau(I.pre.tgt)      \* a NaN ratio was accepted (C12's business)
HasTaus(I, ev) == HasTaus0(I, ev) /\ TausSane(I, ev)

C06_Increasing(I, ev) ==
  HasTaus0(I, ev) =>
    /\ \A k \in 1..Len(ev.taus) : SaneTau(ev.taus[k])
    /\ TausSane(I, ev) =>
        LET S == TauSeq(I, ev) IN
          \A k \in 2..Len(S) :
            IF IsNearest(I) THEN Diff(S[k], S[k - 1]) >= -2 * EpsAt(I, S[k])
            \* f32: the instant is read off an f32 sample; a million frames into the stream its resolution
            \* (2^-24 relative) is of the order of a small step
            ELSE IF I.T = 64 THEN Diff(S[k], S[k - 1]) > 0
            ELSE Diff(S[k], S[k - 1]) > -2 * EpsAt(I, S[k])

\* A ramp is realised in discrete steps; it may stop a few steps short of, or beyond, the
\* target.  This is the resolution of "equals 1/new": 4 ramp steps.
RampTol(I, ev) == LET d == Abs(Diff(I.pre.tgt, I.pre.cur))
                  IN IF d >= BIG THEN BIG ELSE (4 * (d \div Max(1, ev.nout))) + 4

C06_StepInRange(I, ev) ==
  HasTaus(I, ev) =>
    LET S  == TauSeq(I, ev)
        lo == Min(Val(I.pre.cur), Val(I.pre.tgt))
        hi == Max(Val(I.pre.cur), Val(I.pre.tgt))
    IN \A k \in 2..Len(S) :
         LET d   == Diff(S[k], S[k - 1])
             tol == 2 * EpsAt(I, S[k]) + Quant(I) + 4
         IN lo - tol <= d /\ d <= hi + tol

\* ... and the ramp MOVES: over a ramped chunk the spacing gets closer to 1/new by at least half of what the
\* slowest admissible ramp (the change spread over output_frames_max frames) covers in that many frames.
\* (The fixed-input types plan the ramp for chunk x mean ratio frames and may run out of input long before;
\* the property only asks for a monotone move towards 1/new and for 1/new from the next chunk on.)
C06_RampMoves(I, ev) ==
  (HasTaus(I, ev) /\ I.pre.cur # I.pre.tgt /\ ~IsNearest(I)) =>
    LET S == TauSeq(I, ev)
        n == Len(S)
        stepMin == Abs(Val(I.pre.tgt) - Val(I.pre.cur)) \div Max(1, ev.pre.out_max)
        expected == stepMin * (n - 2)
    IN (n >= 4 /\ expected > 8 * (2 * EpsAt(I, S[n]) + Quant(I) + 4)) =>
         \* measured from the spacing of the old ratio (a ramp planned for less than one frame arrives at once)
         LET last == Diff(S[n], S[n - 1])
         IN Abs(Val(I.pre.cur) - Val(I.pre.tgt)) - Abs(last - Val(I.pre.tgt)) >= expected \div 2

\* ramped call: spacing moves monotonically from 1/old towards 1/new
C06_RampMonotone(I, ev) ==
  (HasTaus(I, ev) /\ I.pre.cur # I.pre.tgt /\ ~IsNearest(I)) =>
    LET S   == TauSeq(I, ev)
        up  == Val(I.pre.tgt) > Val(I.pre.cur)
    IN \A k \in 3..Len(S) :
         LET d1 == Diff(S[k - 1], S[k - 2])
             d2 == Diff(S[k], S[k - 1])
             tol == 4 * EpsAt(I, S[k])
         IN IF up THEN d2 >= d1 - tol ELSE d2 <= d1 + tol

\* every output frame is computed from frames that were actually supplied
C06_Supplied(I, ev) ==
  HasTaus(I, ev) =>
    LET last == ev.taus[Len(ev.taus)] IN
    /\ IsFast(I.kind) =>
         \* the interpolation window of the last instant ends inside the supplied frames
         (last[1] >= WarmAt(I) => last[1] + FastHi(I.degree) <= I.totIn - 1)
    /\ (IsSinc(I.kind) /\ ev.rd[1] > 0) =>
         \* probe: every kernel window held consecutive supplied frames (value = frame + 1)
         /\ ev.rd[6] = 0
         /\ ev.rd[7] <= I.totIn

(***************************************************************************)
(* C07  frame accounting without drift                                     *)
(***************************************************************************)
C07_NoDrift(I, ev) ==
  (IsAsync(I.kind) /\ I.steady /\ I.pre.steady /\ I.rp > 0 /\ IsProc(ev)) =>
    LET p == I.rp
        q == I.rq
    IN Abs(I.totOut * q - I.totIn * p) <= p * (I.L + 3) + 4 * q

FftA(I) == I.fs_in \div GCD(I.fs_in, I.fs_out)
FftB(I) == I.fs_out \div GCD(I.fs_in, I.fs_out)
\* input frames per FFT block: the smallest multiple of the reduced input rate that is >= the
\* requested (sub)chunk, at least one; FftFixedOut: same on the output side
FftBlockIn(I) ==
  CASE I.kind = "FftFixedInOut" -> Max(1, CeilDiv(I.chunkMax, FftA(I))) * FftA(I)
    [] I.kind = "FftFixedIn"    -> Max(1, CeilDiv(I.chunkMax \div I.sub, FftA(I))) * FftA(I)
    [] OTHER                    -> Max(1, CeilDiv(I.chunkMax \div I.sub, FftB(I))) * FftA(I)

\* output frames per FFT block
FftBlockOut(I) == (FftBlockIn(I) \div FftA(I)) * FftB(I)
\* input frames per output frame, in units
FftStep(I) == (FftA(I) \div FftB(I)) * ONE + ((FftA(I) % FftB(I)) * ONE) \div FftB(I)

(***************************************************************************)
(* C05 for the synchronous resamplers, without a twin: fed the index signal *)
(* x[n] = n + 1, a linear-phase FIR resampler reproduces the linear        *)
(* function, so once the start-up transient has passed, the instants read  *)
(* off successive output frames advance by exactly fs_in/fs_out - within a *)
(* call (FFT block boundaries) and from the last frame of one call to the  *)
(* first of the next (chunk boundaries).  A frame lost, duplicated,        *)
(* misplaced or taken from stale storage shows as a spacing that is off by *)
(* a whole step.  NUMERIC GUARD: f64 only, blocks of at least 64 frames;    *)
(* tolerance an eighth of a step (measured on the unchanged tree: < 2      *)
(* units of 2^-20 frame).                                                   *)
(***************************************************************************)
C05_FftSmooth(I, ev) ==
  (ProcOk(ev) /\ IsFft(I.kind) /\ I.signal = "index" /\ I.T = 64 /\ ~I.flushed /\ ~I.pre.flushed
     /\ Len(ev.taus) > 0 /\ Len(ev.taus) = ev.nout
     /\ FftBlockIn(I) >= 64 /\ FftBlockOut(I) >= 64
     /\ \A k \in 1..Len(ev.taus) : SaneTau(ev.taus[k])) =>
    LET warmOut == ev.pre.delay + 3 * FftBlockOut(I)
        withPrev == I.pre.warm /\ SaneTau(I.pre.lastTau)
        S == IF withPrev THEN <<I.pre.lastTau>> \o ev.taus ELSE ev.taus
        \* output frame number (since the start of the stream) of S[k]
        Frame(k) == I.pre.totOut + k - 1 - (IF withPrev THEN 1 ELSE 0)
        step == FftStep(I)
    IN \A k \in 2..Len(S) :
         Frame(k - 1) >= warmOut => Abs(Diff(S[k], S[k - 1]) - step) <= (step \div 8) + 4

C07_FftExact(I, ev) ==
  (IsFft(I.kind) /\ IsProc(ev)) =>
    LET d == I.totIn * FftB(I) - I.totOut * FftA(I)
    IN /\ d >= 0
       /\ d < FftBlockIn(I) * FftB(I)
       /\ I.kind = "FftFixedInOut" => d = 0

C07_FftBlock(I, ev) ==
  (ev.ev = "new" /\ ev.res = "ok" /\ I.kind = "FftFixedInOut") =>
    /\ ev.post.in_next * I.fs_out = ev.post.out_next * I.fs_in
    /\ ev.post.in_next = FftBlockIn(I)

(***************************************************************************)
(* C16  flushing: once enough zero padding has been pushed through (the    *)
(* filter length plus the end-of-chunk margin; two blocks for the FFT      *)
(* types) every frame of the real signal has produced its output           *)
(***************************************************************************)
C16_Flush(I, ev) ==
  (ProcOk(ev) /\ I.const /\ I.pre.const /\ I.padded > 0) =>
    IF IsFft(I.kind)
    THEN I.padded >= 2 * FftBlockIn(I) + ev.pre.in_max =>
           I.totOut * FftA(I) >= I.supplied * FftB(I)
    ELSE (I.orig.p > 0 /\ I.padded >= I.L + 4 + CeilDiv(I.orig.q, I.orig.p) + ev.pre.in_max) =>
           I.totOut * I.orig.q + I.orig.p + I.orig.q >= I.supplied * I.orig.p

\* the allocating wrappers (process, process_partial and their VecResampler forms) return, per channel, exactly
\* the frames written - and EMPTY vectors for masked-out channels
C16_WrapperShape(I, ev) ==
  (ProcOk(ev) /\ ev.via \in {"alloc", "vec_alloc"}) =>
    \A c \in 1..Len(ev.hi) :
      LET act == IF ev.has_mask /\ c <= Len(ev.mask) THEN ev.mask[c] ELSE TRUE
      IN ev.hi[c] = (IF act THEN ev.nout ELSE 0)

\* the object-safe VecResampler wrapper forwards every getter unchanged
C16_VecForward(I, ev) ==
  (ev.ev = "getters" /\ "gv" \in DOMAIN ev) =>
    /\ ev.gv = ev.post
    /\ ev.vec_alloc = <<I.ch, ev.post.in_max, I.ch, ev.post.out_max>>

(***************************************************************************)
(* C09  real-time safety                                                   *)
(***************************************************************************)
RTSafe(ev) ==
  \/ ev.ev \in {"set_ratio", "set_chunk", "reset", "getters"}
  \/ ev.ev \in {"process", "bad"} /\ ev.via \in {"into", "slices", "vec_into"}

C09_NoHeap(I, ev) == (RTSafe(ev) /\ ev.res \in {"ok", "err"}) => ev.heap = 0

(***************************************************************************)
(* C11  masked-out channels are left untouched                             *)
(***************************************************************************)
C11_MaskUntouched(I, ev) == (IsProc(ev) \/ ev.ev = "bad") => ~ev.dirty_masked

(***************************************************************************)
(* C12  setter domains                                                     *)
(***************************************************************************)
C12_RatioDomain(I, ev) ==
  ev.ev = "set_ratio" =>
    IF IsFft(I.kind)
    THEN ev.res = "err" /\ ev.variant = "SyncNotAdjustable"
    ELSE /\ (ev.res = "ok") = InRange(ev.x, ev.blo, ev.bhi)
         /\ ev.res # "ok" => (ev.res = "err" /\ ev.variant = "RatioOutOfBounds")

C12_RejectNoop(I, ev) ==
  (ev.ev \in {"set_ratio", "set_chunk"} /\ ev.res = "err") => ev.post = ev.pre

C12_ChunkDomain(I, ev) ==
  ev.ev = "set_chunk" =>
    IF IsSinc(I.kind)
    THEN /\ (ev.res = "ok") = (1 <= ev.n /\ ev.n <= I.chunkMax)
         /\ ev.res # "ok" => /\ ev.res = "err" /\ ev.variant = "InvalidChunkSize"
                             /\ ev.ef = <<I.chunkMax, ev.n>>
         /\ ev.res = "ok" => IF IsFixedIn(I.kind) THEN ev.post.in_next = ev.n
                             ELSE ev.post.out_next = ev.n
    ELSE ev.res = "err" /\ ev.variant = "ChunkSizeNotAdjustable"

\* after an accepted change the next call consumes/produces exactly the new size
C12_ChunkEffect(I, ev) ==
  (ProcOk(ev) /\ IsSinc(I.kind)) =>
    IF IsFixedIn(I.kind) THEN ev.nin = I.pre.chunk ELSE ev.nout = I.pre.chunk

(***************************************************************************)
(* C13  malformed arguments                                                *)
(***************************************************************************)
Faults(I, ev) ==
  LET ni == Len(ev.in_len)
      no == Len(ev.out_len)
  IN {<<"WrongNumberOfInputChannels", <<I.ch, ni>>>> : x \in IF ni # I.ch THEN {1} ELSE {}}
     \cup {<<"WrongNumberOfOutputChannels", <<I.ch, no>>>> : x \in IF no # I.ch THEN {1} ELSE {}}
     \cup {<<"WrongNumberOfMaskChannels", <<I.ch, Len(ev.mask)>>>> :
              x \in IF ev.has_mask /\ Len(ev.mask) # I.ch THEN {1} ELSE {}}
     \cup {<<"InsufficientInputBufferSize", <<c - 1, ev.pre.in_next, ev.in_len[c]>>>> :
              c \in {c \in 1..Min(ni, I.ch) : ActiveCh(ev, c) /\ ev.in_len[c] < ev.pre.in_next}}
     \cup {<<"InsufficientOutputBufferSize", <<c - 1, ev.pre.out_next, ev.out_len[c]>>>> :
              c \in {c \in 1..Min(no, I.ch) : ActiveCh(ev, c) /\ ev.out_len[c] < ev.pre.out_next}}

C13_ErrVariant(I, ev) ==
  (ev.ev = "bad" /\ Faults(I, ev) # {}) =>
    /\ ev.res = "err"
    /\ <<ev.variant, ev.ef>> \in Faults(I, ev)

C13_Untouched(I, ev) ==
  (ev.ev = "bad" /\ Faults(I, ev) # {}) => (~ev.dirty_beyond /\ ev.post = ev.pre)

\* constructors: documented error for invalid arguments, success otherwise
C13_Ctor(n) ==
  n.ev = "new" =>
    IF IsFft(n.kind)
    THEN IF n.fs_in = 0 \/ n.fs_out = 0
         THEN n.res = "err" /\ n.variant = "InvalidSampleRate" /\ n.ef = <<n.fs_in, n.fs_out>>
         ELSE n.res = "ok"
    ELSE LET badr == NonPositive(n.orig.w)
             badm == LessThanOne(n.maxrel.w)
         IN IF badr \/ badm
            THEN /\ n.res = "err"
                 /\ \/ badr /\ n.variant = "InvalidRatio"
                    \/ badm /\ n.variant = "InvalidRelativeRatio"
            ELSE n.res = "ok"

(***************************************************************************)
(* C14  output_delay is the true alignment delay                           *)
(***************************************************************************)
\* |j - (tau*r + delay)| <= max(1,r) + 1, cleared of fractions with r = p/q, at 2^-10 resolution
DelayOk(j, tau, delay, p, q) ==
  LET x0 == j * q - tau[1] * p - delay * q
      x  == IF x0 > ONE THEN ONE ELSE IF x0 < -ONE THEN -ONE ELSE x0
      v  == x * 1024 - ((tau[2] * p) \div 1024)
      b  == (Max(p, q) + q) * 1024 + 1024
  IN -b <= v /\ v <= b

C14_Delay(I, ev) ==
  (HasTaus(I, ev) /\ I.steady /\ I.pre.steady /\ I.rp > 0) =>
    \A k \in 1..Len(ev.taus) :
      (ev.taus[k][1] >= WarmAt(I) + 1) =>
        DelayOk(I.pre.totOut + k - 1, ev.taus[k], ev.pre.delay, I.rp, I.rq)

\* Kernels without an instant probe (real sinc kernels, FFT): one impulse at input frame n0; the
\* largest |output| so far must sit at n0*ratio + delay once the stream has passed that point.
C14_Peak(I, ev) ==
  (ProcOk(ev) /\ I.signal = "impulse" /\ Len(I.imp) = 1 /\ I.steady
     /\ (IsFft(I.kind) \/ I.rp > 0)) =>
    LET p == IF IsFft(I.kind) THEN FftB(I) ELSE I.rp
        q == IF IsFft(I.kind) THEN FftA(I) ELSE I.rq
        expect == I.imp[1] * p + ev.pre.delay * q       \* times q
        tol == Max(p, q) + q
    IN (I.totOut * q > expect + tol + q /\ I.best[2] > 0) =>
         Abs(I.best[1] * q - expect) <= tol

(***************************************************************************)
(* Known findings (genuine defects of the unchanged tree that are recorded *)
(* rather than repaired, see known_findings.json).  Each is identified by  *)
(* a ROOT-CAUSE predicate over the history - an arithmetic condition, not  *)
(* "a ratio change happened" - so that a different violation of the same   *)
(* property is still reported.                                             *)
(***************************************************************************)
CeilT(t) == IF t[2] = 0 THEN t[1] ELSE t[1] + 1
Died(ev) == ev.res \in {"abort", "panic"}

\* KF-D8a  fixed-input types keep 2*L frames of history; after a chunk processed at 1/r_prev
\* the position left behind is up to L+1+ceil(1/r_prev) frames before the end of that chunk,
\* and the first position of the next chunk, one (smaller) step later, can lie before the
\* history: ceil(1/r_prev) - 1/r_now > L - 1 - k  (k = window reach below the position).
KF_D8a(I, ev) ==
  /\ IsFixedIn(I.kind) /\ IsProc(ev) /\ Died(ev)
  /\ LET k == IF IsFast(I.kind) THEN FastLo(I.degree) ELSE 1
         first == Min(Val(I.pre.cur), Val(I.pre.tgt))
     IN CeilT(I.pre.prevEndT) * ONE - first > (I.L - 2 - k) * ONE

\* KF-D8c  fixed-input types after a step/ramp up: the backlog of up to ceil(1/r_prev)+1 input
\* frames is converted at the new, higher ratio and exceeds the +10 frames of slack in
\* output_frames_next (more frames are written than advertised; with a buffer of the
\* advertised size the write is out of bounds).
KF_D8c(I, ev) ==
  /\ IsFixedIn(I.kind) /\ IsProc(ev)
  /\ (CeilT(I.pre.prevEndT) + 1) * ONE >= 8 * Min(Val(I.pre.cur), Val(I.pre.tgt))

\* KF-D9  sinc types with oversampling_factor 1 and Cubic/Quadratic interpolation: the
\* intermediate points span two further input frames, which neither the sub-index wrap nor
\* the buffer margins allow for.
KF_D9(I) == IsSinc(I.kind) /\ I.F = 1 /\ I.interp \in {"Cubic", "Quadratic"}

KnownFinding(name, I, ev) ==
  IF ~I.alive THEN ""
  ELSE IF name \in {"C03_CallOk", "C06_Increasing", "C06_StepInRange", "C06_RampMonotone", "C06_Supplied"}
          /\ KF_D9(I) THEN "KF-D9"
  ELSE IF name = "C03_CallOk" /\ KF_D8a(I, ev) THEN "KF-D8a"
  ELSE IF name = "C03_CallOk" /\ Died(ev) /\ KF_D8c(I, ev) THEN "KF-D8c"
  ELSE IF name = "C04_Written" /\ ProcOk(ev) /\ ev.nout > ev.pre.out_next /\ KF_D8c(I, ev) THEN "KF-D8c"
  ELSE ""

=============================================================================
