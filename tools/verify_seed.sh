#!/bin/bash
# tools/verify_seed.sh <seed dir /tmp/seed-X> <worktree> <name>
# Confirms a seeded change in a scratch worktree: unit tests pass with the patch, the demo fails
# with it and passes without it; then stores it under /verif/seeded/<name>/.
set -u
S=$1; W=$2; N=$3
cd $W || exit 2
git checkout -q -- . ; rm -rf tests
git apply --check $S/patch.diff || { echo "patch does not apply"; exit 1; }
mkdir -p tests; cp $S/demo.rs tests/demo.rs
echo "== demo WITHOUT patch"; cargo test --offline --test demo 2>&1 | grep -E "^test result|error(\[|:)" | head -3; r0=${PIPESTATUS[0]}
cargo test --offline --test demo >/dev/null 2>&1; without=$?
git apply $S/patch.diff
echo "== demo WITH patch"; cargo test --offline --test demo 2>&1 | grep -E "^test result|panicked" | head -4
cargo test --offline --test demo >/dev/null 2>&1; with=$?
rm -rf tests
echo "== unit tests WITH patch"; cargo test --offline 2>&1 | grep -E "^test result" | head -3
cargo test --offline >/dev/null 2>&1; unit=$?
git checkout -q -- . 
echo "without=$without with=$with unit=$unit"
if [ $without -eq 0 ] && [ $with -ne 0 ] && [ $unit -eq 0 ]; then
  mkdir -p /verif/seeded/$N; cp $S/patch.diff $S/demo.rs $S/meta.json /verif/seeded/$N/
  python3 - <<PY
import json
p='/verif/seeded/$N/meta.json'
m=json.load(open(p))
m['confirmed_by_builder']={'demo_without_patch':'pass','demo_with_patch':'fail','unit_tests_with_patch':'pass (96 + doc tests)','worktree':'$W','how':'tools/verify_seed.sh'}
json.dump(m,open(p,'w'),indent=1)
PY
  echo "KEPT as /verif/seeded/$N"
else
  echo "REJECTED"
fi
