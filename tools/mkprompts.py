#!/usr/bin/env python3
"""tools/mkprompts.py <wave> <focus-file>: writes /tmp/seed<wave>-<k>.prompt.txt for the fresh sub-agents that
produce seeded changes.  A prompt holds ONLY: the task, the text of the properties (from properties.jsonl),
a focus area (one per line of <focus-file>), and one-sentence summaries of the changes produced earlier (so
that they are not repeated).  Nothing about how /verif checks anything."""
import glob, json, os, sys
V = os.path.dirname(os.path.dirname(os.path.abspath(__file__)))
wave, focus_file = sys.argv[1], sys.argv[2]
tpl = open(os.path.join(V, "tools", "seed_prompt_template.txt")).read()
props = [json.loads(l) for l in open(os.path.join(V, "properties.jsonl")) if l.strip()]
ptxt = "\n\n".join("%s  %s\n  Statement: %s\n  Quantifier: %s" % (p["id"], p["title"], p["statement"], p["quantifier"])
                   for p in props if p["id"] not in ("C01", "C02"))
tried = []
for d in sorted(glob.glob(os.path.join(V, "seeded", "C*"))):
    m = json.load(open(os.path.join(d, "meta.json")))
    tried.append("- [%s] %s" % (m.get("property", "?"), m.get("summary") or m.get("description") or ""))
for k, f in enumerate([l.strip() for l in open(focus_file) if l.strip()], 1):
    t = tpl.replace("The property your change must break:", "You may break ANY ONE of the following properties (say which one in meta.json \"property\"):")
    t = t.replace("PROPERTY_TEXT", ptxt)
    t = t.replace("\nRequirements for the change:", "\nYour focus area: " + f + " Choose the property that a defect in this "
                  "area would naturally break.\n\nRequirements for the change:", 1)
    t = t.replace("WORKTREE", "/tmp/wt%s-%d" % (wave, k)).replace("OUTDIR", "/tmp/seed%s-%d" % (wave, k))
    t += ("\n\nDo NOT use `git stash` (the stash is shared between worktrees of one repository): to switch between the "
          "patched and the unmodified code use `git diff > OUT/patch.diff; git checkout -- src; ...; git apply OUT/patch.diff`."
          .replace("OUT", "/tmp/seed%s-%d" % (wave, k)))
    t += ("\n\nIMPORTANT - changes that were ALREADY produced by others (do NOT repeat any of them; pick a different "
          "mechanism):\n" + "\n".join(tried) + "\n")
    os.makedirs("/tmp/seed%s-%d" % (wave, k), exist_ok=True)
    open("/tmp/seed%s-%d.prompt.txt" % (wave, k), "w").write(t)
    print("/tmp/seed%s-%d.prompt.txt" % (wave, k))
