#!/usr/bin/env python3
"""list the lines of /repo/src that no driver run reached (input: llvm-cov show output)"""
import re, sys
cur = None
for l in open(sys.argv[1]):
    if l.startswith('/') and l.rstrip().endswith(':'):
        cur = l.strip().rstrip(':'); continue
    if cur and '/src/' in cur:
        m = re.match(r'\s*(\d+)\|\s*0\|(.*)', l)
        if m and m.group(2).strip() and not m.group(2).strip().startswith('//'):
            print("%s:%s %s" % (cur.split('/src/')[1], m.group(1), m.group(2)[:130]))
