#!/bin/bash
# tools/sweep.sh <tier> <seed>... : every claimed check with each seed; prints one summary line per run
tier=$1; shift
# background runs started with `vp run --with-repo` use the frozen copy of /repo
if [ -n "${VP_RUN_REPO:-}" ]; then export VERIF_REPO=$VP_RUN_REPO; fi
for s in "$@"; do
  for p in $(python3 -c "import json;print(' '.join(c['property_id'] for c in json.load(open('MANIFEST.json'))['checks']))"); do
    out=$(VERIF_SEED=$s ./check $p --tier $tier 2>&1); rc=$?
    echo "seed=$s $p rc=$rc $(echo "$out" | tail -1)"
    echo "$out" | grep -E "^(VIOLATION|TOOL-ERROR|MODEL-DRIFT)" | head -5
  done
done
