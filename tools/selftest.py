#!/usr/bin/env python3
"""Binding self-test: record real traces, corrupt ONE field (or drop one event) and check that TLC
rejects exactly there with the expected predicate. Shows that the trace specifications constrain
every field they bind (DESIGN.md section 8)."""
import copy, json, os, sys
sys.path.insert(0, os.path.dirname(os.path.dirname(os.path.abspath(__file__))))
from vlib import run, props

ALL = sorted({p for v in props.PREDICATES.values() for p in v} | {"C11_MaskUntouched"})


def record(script_ops, wd, name):
    pairs = run.run_scripts([(name, script_ops)], wd, prefix=name)
    return pairs[0]


def validate(events, sp, wd, module, preds, tag):
    tp = os.path.join(wd, tag + ".ndjson")
    with open(tp, "w") as f:
        for e in events:
            f.write(json.dumps(e) + "\n")
    res = run.validate_traces([(sp, tp)], preds, wd, module=module, tag=tag)
    return sorted({(v[1], v[3]) for v in res["viols"] if v[0] == "VIOL"})


def main():
    run.build_harness()
    wd = run.workdir("selftest")
    ok = True
    base = [{"op": "new", "id": 0, "kind": "SincFixedOut", "T": 64, "r": {"p": 3, "q": 2}, "maxrel": {"p": 2, "q": 1},
             "chunk": 32, "ch": 2, "L": 16, "F": 4, "interp": "Cubic", "probe": "linear", "signal": "index"}]
    base += [{"op": "process", "id": 0}] * 3 + [{"op": "set_ratio", "id": 0, "x": {"p": 1, "q": 1}, "ramp": True}]
    base += [{"op": "process", "id": 0}] * 2 + [{"op": "bad", "id": 0, "short_in": [1, 1]},
                                               {"op": "set_chunk", "id": 0, "n": 99}, {"op": "process", "id": 0}]
    sp, tp = record(base, wd, "single")
    ev = run.read_trace(tp)
    assert validate(ev, sp, wd, "TraceContract", ALL, "clean") == [], "clean trace must pass"

    def line(op_line):
        return next(i for i, e in enumerate(ev) if e.get("line") == op_line)

    cases = []
    e2 = copy.deepcopy(ev); e2[line(3)]["nin"] -= 1; cases.append(("consumed-1", e2, "C04_Consumed", 3))
    e2 = copy.deepcopy(ev); e2[line(3)]["nout"] += 1; cases.append(("written+1", e2, "C04_Written", 3))
    e2 = copy.deepcopy(ev); e2[line(4)]["taus"][5][0] += 1; cases.append(("instant moved one frame", e2, "C06_StepInRange", 4))
    e2 = copy.deepcopy(ev); e2[line(4)]["heap"] = 1; cases.append(("heap event", e2, "C09_NoHeap", 4))
    e2 = copy.deepcopy(ev); e2[line(8)]["variant"] = "WrongNumberOfInputChannels"; cases.append(("err variant swapped", e2, "C13_ErrVariant", 8))
    e2 = copy.deepcopy(ev); e2[line(8)]["ef"][2] += 1; cases.append(("err field off by one", e2, "C13_ErrVariant", 8))
    e2 = copy.deepcopy(ev); e2[line(9)]["res"] = "ok"; cases.append(("invalid chunk size accepted", e2, "C12_ChunkDomain", 9))
    e2 = copy.deepcopy(ev); e2[line(5)]["res"] = "err"; e2[line(5)]["variant"] = "RatioOutOfBounds"; cases.append(("in-range ratio rejected", e2, "C12_RatioDomain", 5))
    e2 = copy.deepcopy(ev); e2[line(6)]["post"]["in_next"] = e2[line(6)]["post"]["in_max"] + 1; cases.append(("in_next > in_max", e2, "C04_Bounds", 6))
    e2 = copy.deepcopy(ev); del e2[line(3)]; cases.append(("one process event dropped (hook removed)", e2, "C06_StepInRange", 4))
    e2 = copy.deepcopy(ev); e2[line(4)]["res"] = "panic"; cases.append(("panic", e2, "C03_CallOk", 4))
    e2 = copy.deepcopy(ev); e2[line(4)]["rd"][5] = 1; cases.append(("non-contiguous kernel window", e2, "C06_Supplied", 4))
    for name, evs, pred, ln in cases:
        got = validate(evs, sp, wd, "TraceContract", ALL, "c")
        hit = (pred, ln) in got
        ok &= hit
        print("%-45s expect %s@%d : %s %s" % (name, pred, ln, "REJECTED" if hit else "NOT REJECTED", got[:4]))
    # twins
    n = {"op": "new", "kind": "FftFixedOut", "T": 64, "ch": 1, "fs_in": 3, "fs_out": 2, "chunk": 50, "sub": 1, "signal": "noise", "seed": 3}
    tw = [dict(n, id=0), dict(n, id=1), {"op": "note", "twin": "full", "a": 0, "b": 1}]
    for _ in range(4):
        tw += [{"op": "process", "id": 0}, {"op": "process", "id": 1}]
    sp, tp = record(tw, wd, "twin")
    ev = run.read_trace(tp)
    assert validate(ev, sp, wd, "TraceTwin", ["TwinFull"], "tclean") == []
    e2 = copy.deepcopy(ev)
    k = max(i for i, e in enumerate(e2) if e.get("ev") == "process" and e.get("id") == 1)
    e2[k]["dig"][0] = e2[k]["dig"][0][:-1] + ("0" if e2[k]["dig"][0][-1] != "0" else "1")
    got = validate(e2, sp, wd, "TraceTwin", ["TwinFull"], "t")
    hit = any(p == "TwinFull" for p, _ in got)
    ok &= hit
    print("%-45s expect TwinFull : %s" % ("one digest bit flipped in a twin", "REJECTED" if hit else "NOT REJECTED"))
    print("SELFTEST", "PASSED" if ok else "FAILED")
    return 0 if ok else 1


if __name__ == "__main__":
    sys.exit(main())
