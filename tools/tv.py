#!/usr/bin/env python3
"""tools/tv.py <script.jsonl>... : run scripts against the current /repo and validate the traces
against Contract with every single-instance predicate (soft mode). Prints the VIOL lines."""
import sys, os
sys.path.insert(0, os.path.dirname(os.path.dirname(os.path.abspath(__file__))))
from vlib import run
import json
ALL = ["C03_CallOk","C04_Bounds","C04_Consumed","C04_Written","C06_Increasing","C06_StepInRange",
       "C06_RampMonotone","C06_Supplied","C07_NoDrift","C07_FftExact","C07_FftBlock","C09_NoHeap",
       "C12_RatioDomain","C12_RejectNoop","C12_ChunkDomain","C12_ChunkEffect","C13_ErrVariant",
       "C13_Untouched","C13_Ctor","C14_Delay"]
if __name__ == "__main__":
    args = [a for a in sys.argv[1:] if not a.startswith("--")]
    if "--nobuild" not in sys.argv:
        run.build_harness()
    wd = run.workdir("tv")
    scripts = []
    for a in args:
        ops = [json.loads(l) for l in open(a) if l.strip()]
        scripts.append((os.path.basename(a).replace(".jsonl", ""), ops))
    pairs = run.run_scripts(scripts, wd)
    res = run.validate_traces(pairs, ALL, wd)
    for v in res["viols"]:
        print(v[0], v[5], v[1], os.path.basename(v[2]), "line", v[3], v[4])
    print("events", res["events"], "violations", len(res["viols"]))
    import shutil; shutil.rmtree(wd, ignore_errors=True)
