#!/usr/bin/env python3
"""Regenerates MANIFEST.json from the table below (claimed checks + not_applicable)."""
import json, os, subprocess
V = os.path.dirname(os.path.dirname(os.path.abspath(__file__)))
props = {json.loads(l)["id"]: json.loads(l) for l in open(os.path.join(V, "properties.jsonl"))}

TRACE_BASE = ("TLC (model checker) decides: exhaustive exploration of the as-is TLA+ model (AsyncPos / FftBlocks) over small "
              "constants checks the property's invariants on every reachable model state; the model's behaviours are replayed "
              "into the real resamplers (bit-exact prediction of counts, getters and last_index) and every real execution - "
              "replayed behaviours, seeded scripts at realistic sizes, witnesses of repaired defects - is validated by TLC "
              "against Contract.tla with the property's predicates evaluated in every state of the trace.")
NOTE = ("Trusted: TLC, the harness driver (worker processes, sentinel buffers, counting allocator), the transcription of the "
        "code into AsyncPos/FftBlocks (bound by bit-exact replay; a mismatch is reported as MODEL-DRIFT). Exhaustive only over "
        "the small constants listed in the evidence; realistic sizes are sampled (seeded). Known findings are matched by "
        "root-cause predicates evaluated by TLC.")

CLAIMED = {
 "C03": ("model_checking", "6", "TLC: C03_ReadInBuffer/SubIndex/LoadFits on AsyncPos, C03_InBuffer on FftBlocks; trace predicate C03_CallOk on real runs built with debug-assertions+overflow-checks in worker processes (abort/panic/Err are data)."),
 "C04": ("model_checking", "6", "TLC: C04_Bounds/Written/Delivers on the models and the refinement AsyncPos/FftBlocks => Abstract.tla (PROPERTY Refines: every step of the transcribed code is a step the generative contract allows); trace predicates C04_Bounds, C04_Consumed, C04_Written (sentinel-filled buffers of exactly the advertised size and of the maximum size), C04_LifeBounds (what is needed now never exceeds ANY maximum advertised earlier) and C04_Allocate (lengths/capacities of input/output_buffer_allocate at arbitrary history points)."),
 "C06": ("model_checking", "6", "TLC: C06_Supplied (content model: every cell read holds the frame it should) on AsyncPos; trace predicates C06_Increasing/StepInRange/RampMonotone/Supplied on evaluation instants observed through the index signal and a probing SincInterpolator."),
 "C07": ("model_checking", "6", "TLC: drift is a bounded function of the parked position (C07_NoDrift, PosBounded; C07_Drift/DriftIsSaved/Blocks with no depth bound on FftBlocks = unbounded streams) and the refinement into Abstract.tla; for ARBITRARY rates, block counts and chunk sizes the FFT integer machine's invariant is proved inductive with TLAPS (FftIndProofs.tla, 451 obligations) and TLC checks that FftBlocks takes exactly that machine's transitions (IndRefines); trace predicates C07_NoDrift (at any steady ratio: the constructor's or one set before the stream starts), C07_FftExact, C07_FftBlock on running sums, 1-frame chunks included."),
 "C09": ("model_checking", "6", "Trace predicate C09_NoHeap (per-thread counting global allocator sampled around each call) on every real-time-safe action at every history point TLC enumerates plus seeded histories."),
 "C12": ("model_checking", "6", "Trace predicates C12_RatioDomain (TLC recomputes the range test bit-exactly from the f64 words of argument and bounds), C12_RejectNoop, C12_ChunkDomain, C12_ChunkEffect and C06_StepInRange (the spacing after an accepted change is the one of original*x) over argument classes x history points; TraceTwin: an instance that also receives rejected setters vs a twin that never saw them (TwinFull), relative vs absolute setter twins (TwinCtl)."),
 "C13": ("model_checking", "6", "TLC on Shapes.tla enumerates EVERY call shape (channel counts, mask length/values, per-channel lengths: 22 940 cases for 2 channels) and checks the transcribed decision of validate_buffers against the fault-set contract; the cases are executed against the code. Trace predicates C13_ErrVariant (TLC derives the set of faults of the observed shape), C13_Untouched, C13_Ctor; malformed calls (with and without well-formed masks) at model history points and in seeded histories; TraceTwin TwinFull against a twin that never saw the failed calls."),
 "C14": ("model_checking", "6", "Trace predicates C14_Delay (instants vs reported delay, cleared of fractions; at the constructor's ratio and at ratios set before the stream starts, extremes of the adjustable range included) and C14_Peak (impulse position through real sinc kernels and the FFT resamplers, blocks up to 6000 frames); TraceTwin predicate TwinDelay (the reported delay follows the ratio in force: ramped vs immediate ratio changes)."),
 "C08": ("model_checking", "6", "TLC on Kernels.tla proves (exact integers) that the transcribed coefficient tables of interp_septic/quintic/cubic/lin are the Lagrange cardinals of their node sets (hence the unique interpolant); TraceTwin predicate TwinNearest (the Nearest resampler picks floor(instant) of its Linear twin - absolute reference for 'the sample at or just before'); TwinPoly binds the tables and the window selection to the code: one-hot inputs through FastFixedIn/Out at dyadic phase grids must equal the cardinal polynomial evaluated by TLC in fixed point. Discrete core only; the rounding-level clause (polynomials of admissible degree reproduced to rounding at arbitrary ratios/chunkings, f32 and f64) is GUARDED: the driver measures |out - p(instant)| in units of eps*max|p| and TLC (TwinNear) compares with a bound of 128 units (largest value measured on the unchanged tree: 12)."),
 "C15": ("model_checking", "6", "TLC on Kernels.tla executes every kernel's loop and horizontal reduction (scalar, AVX, SSE, NEON; f32/f64) on symbolic products and proves each tap of the window is paired exactly once with its wave sample (C15_LoopPairs, C15_ResultExact) and the make_sincs re-indexing (C15_BranchDelay); TraceTwin predicate KernelEq binds it to the code through one-hot waves (bit-identical to the scalar kernel, zero outside the window, every slice alignment), TwinCtl/TwinNear compare resamplers built on each kernel with the dispatched one. Discrete core; summation-order rounding is a guard. NEON is model-only on this host."),
 "C05": ("model_checking", "6", "TLC: content-model invariants (Contiguous, C06_Supplied) under every chunk schedule on the models; TraceTwin predicates TwinBlocks (FFT adapters / (chunk, sub) pairs resolving to one block size: bit-identical block digests) and TwinTaus (async: identical evaluation instants across chunk sizes, set_chunk_size schedules and FixedIn/FixedOut; tie positions of the nearest-point selection included); async VALUES through the real kernels at ratios 2^k, where all positions are exact and the streams of all chunkings/variants are bit-identical (TwinBlocks; noise and signals with stretches of exact zeros); twin-free Contract predicate C05_FftSmooth (index signal through the FFT resamplers comes out linear: spacing of successive frames = fs_in/fs_out across block and chunk boundaries; numeric guard, f64)."),
 "C10": ("model_checking", "6", "TLC: action property C10_ResetIsInit on AsyncPos/FftBlocks from every reachable state; TraceTwin predicate TwinFull between a used-then-reset instance (history = every reachable model state, plus seeded histories with ramps, masks, failed calls, partial calls) and a fresh twin: identical getters, counts and bit-identical digests."),
 "C11": ("model_checking", "6", "TraceTwin predicates TwinChan (channel c of an n-channel instance vs a one-channel twin, bit-identical) and TwinCtl (masked vs unmasked counts/getters), Contract predicate C11_MaskUntouched (sentinel-filled masked outputs, empty slices for masked channels), n in 1..8, constant masks incl. all-false."),
 "C16": ("model_checking", "6", "TLC on Shapes.tla enumerates every (mask, per-channel length) case of the partial wrapper; each is executed. TraceTwin predicate TwinFull between an instance driven through process()/process_partial()/process_partial_into_buffer()/VecResampler (ragged channel lengths, empty slices for masked channels) and a twin driven through process_into_buffer on the zero-padded input, at model history points and in seeded histories; Contract predicates C16_Flush (repeated None calls push the tail out) and C16_VecForward (VecResampler forwards getters/allocators/setters unchanged)."),
 "C17": ("model_checking", "6", "TraceTwin predicate TwinCtl between f32 and f64 instances on identical histories (results, counts, all getters). The numeric half of C17 (outputs within a small multiple of f32 epsilon of the signal peak) cannot be decided by a TLA+ specification; it is GUARDED: the driver measures the largest f32-f64 difference of every call in units of epsilon*peak and TLC (TwinNear) compares it with a bound fixed at about 8x the largest value measured on the unchanged tree (64+4*sinc_len sinc, 64 polynomial, 256 FFT)."),
 "C18": ("model_checking", "6", "TLC on Fleet.tla (Isolation invariant, Diamond action property) enumerates every interleaving/migration schedule of N instances x M threads x K calls; each schedule is executed with real OS threads (independent steps truly concurrent, constructors racing) and TraceTwin predicate TwinFull compares every instance with its single-threaded reference, bit-identically."),
}
TECH = {
 "C03": "TLA+ as-is model checked by TLC + replay into the code + TLC trace validation against Contract.tla",
 "C04": "TLA+ as-is model checked by TLC + replay into the code + TLC trace validation against Contract.tla",
 "C06": "TLA+ content/position model checked by TLC + TLC trace validation of evaluation instants",
 "C07": "TLA+ model (unbounded-stream drift invariant) checked by TLC + TLC trace validation of running sums",
 "C09": "TLC-enumerated histories replayed with a counting allocator + TLC trace validation",
 "C12": "TLC trace validation with bit-exact range decision in TLA+",
 "C13": "TLC trace validation with fault-set oracle in TLA+",
 "C14": "TLC trace validation of instants/impulse peaks against Contract.tla",
}
TECH.update({
 "C08": "TLC exact check of the cardinal polynomials (Kernels.tla) + TLC trace validation of one-hot responses (TraceTwin.tla)",
 "C15": "TLC symbolic execution of the kernel loops/reductions (Kernels.tla) + TLC trace validation of one-hot kernel probes",
 "C05": "TLA+ content model checked by TLC + TLC trace validation of twin executions (TraceTwin.tla)",
 "C10": "TLA+ action property checked by TLC + TLC trace validation of reset twins (TraceTwin.tla)",
 "C11": "TLC trace validation of channel twins (TraceTwin.tla) and masked-output predicate (Contract.tla)",
 "C16": "TLC trace validation of wrapper/core twins (TraceTwin.tla)",
 "C17": "TLC trace validation of f32/f64 control twins (TraceTwin.tla) + numeric guard",
 "C18": "TLC schedule enumeration (Fleet.tla) executed with real threads + TLC trace validation of thread twins",
})
NA = {
 "C01": "numeric passband fidelity (amplitudes in %, spurious content in dB over a continuum of tones) needs real analysis of a windowed-sinc/FFT filter; TLA+/TLC has no reals or transcendental functions (DESIGN.md section 6, C01)",
 "C02": "stopband attenuation in dB of a filter defined through sin/cos/window polynomials is numeric analysis, outside what a TLA+ specification can state or TLC can decide (DESIGN.md section 6, C02)",
}

def main():
    repo_commits = subprocess.run(["git", "-C", "/repo", "log", "--format=%h %s"], capture_output=True, text=True).stdout.splitlines()
    hooks = [c.split()[0] for c in repo_commits if c.split(" ", 1)[1].startswith("verif hook")]
    checks = []
    for pid in sorted(CLAIMED):
        cat, ref, text = CLAIMED[pid]
        checks.append({
            "property_id": pid,
            "quick_cmd": "./check %s --tier quick" % pid,
            "thorough_cmd": "./check %s --tier thorough" % pid,
            "evidence_file": "/verif/evidence/%s.json" % pid,
            "replay_cmd_template": "./check %s --replay {path}" % pid,
            "engine": "tlc-contract",
            "level_claimed": {"category": cat, "text": TRACE_BASE + " " + text, "design_ref": "DESIGN.md section " + ref},
            "level_note": NOTE,
            "technique": TECH[pid],
        })
    na = []
    for pid in sorted(props):
        if pid in CLAIMED:
            continue
        na.append({"property_id": pid, "reason": NA.get(pid, "check not built yet (build in progress)")})
    m = {
        "version": 1,
        "setup_cmd": "cd /verif && ./check --setup",
        "hooks": {"guard": "rubato_verif",
                  "enable": "cargo feature rubato_verif of the rubato crate, enabled by /verif/harness/Cargo.toml (path dependency on /repo)",
                  "baseline_off_cmd": "cd /repo && cargo test --workspace --no-fail-fast --offline",
                  "source_commits": hooks, "add_only": True},
        "engines": [
            {"name": "tlc-contract", "path": "/verif/spec", "serves_properties": sorted(CLAIMED),
             "kind_free_text": "TLA+ specifications (Contract, TraceContract, TraceTwin, AsyncPos, FftBlocks, Fleet, Kernels, PolyTables) checked with TLC; Rust harness /verif/harness drives the real resamplers; ./check orchestrates"}],
        "checks": checks,
        "notes": "Known findings: /verif/known_findings.json. Exit 2 = tool error (no verdict). VERIF_SEED seeds generated scripts and sampling.",
        "not_applicable": na,
    }
    json.dump(m, open(os.path.join(V, "MANIFEST.json"), "w"), indent=1)
    print("claimed", sorted(CLAIMED), "n/a", [x["property_id"] for x in na])

if __name__ == "__main__":
    main()
