#!/usr/bin/env python3
"""Writes the TLC configurations the checks generate on the fly (quick and thorough constants) to
spec/cfg/, so that every specification can also be run by hand:
    cd spec && tlc -workers 8 -config cfg/AsyncPos-sinc-quick.cfg AsyncPos.tla
(trace specifications need TRACE=<file.ndjson> in the environment)."""
import os, sys
V = os.path.dirname(os.path.dirname(os.path.abspath(__file__)))
sys.path.insert(0, V)
from vlib import props, model, run, kernels, shapes

out = os.path.join(V, "spec", "cfg")
os.makedirs(out, exist_ok=True)


def w(name, text):
    open(os.path.join(out, name), "w").write(text)


for tier in ("quick", "thorough"):
    for module, tag, params, conv, q in props.model_configs("C03", tier):
        p = dict(params)
        p["invariants"] = model.ASYNC_INV if module == "AsyncPos" else model.FFT_INV
        w("%s-%s-%s.cfg" % (module, tag, tier), props.cfg_text(module, p, False))
        rmod = "AsyncRefines" if module == "AsyncPos" else "FftRefines"
        p2 = dict(params)
        p2["invariants"] = ["A_Advertised"] + (["A_DriftBound"] if module == "AsyncPos" else [])
        w("%s-%s-%s.cfg" % (rmod, tag, tier), props.cfg_text(module, p2, False) + "PROPERTY Refines\n")
    ls = [8, 16, 24, 32, 64] if tier == "quick" else [8, 16, 24, 32, 40, 48, 56, 64, 128, 256]
    fs = [1, 2, 3, 4, 16] if tier == "quick" else [1, 2, 3, 4, 5, 7, 16, 32, 64]
    w("Kernels-%s.cfg" % tier, kernels.kernels_cfg(ls, fs, ["C15_LoopPairs", "C15_ResultExact", "C15_BranchDelay", "C08_Cardinal"]))
w("Shapes-2ch.cfg", shapes.shapes_cfg(2, 3, False))
w("FftUnit.cfg", "SPECIFICATION Spec\nCONSTANTS\n  Chans = {1,2,3}\n  Blocks = {1,2,3}\nINVARIANT C11_NoForeignRead\nINVARIANT C11_OutputDeps\nCHECK_DEADLOCK FALSE\n")
w("Fleet.cfg", "SPECIFICATION Spec\nCONSTANTS\n  N = 2\n  M = 2\n  K = 2\n  Emit = FALSE\nINVARIANT Isolation\nPROPERTY Diamond\nCHECK_DEADLOCK FALSE\n")
allp = sorted({p for v in props.PREDICATES.values() for p in v} | {"C11_MaskUntouched", "C16_Flush", "C16_VecForward"})
w("TraceContract-hard.cfg", run.trace_cfg(allp, hard=True))
w("TraceContract-soft.cfg", run.trace_cfg(allp, hard=False))
tw = ["TwinFull", "TwinCtl", "TwinChan", "TwinBlocks", "TwinTaus", "TwinPoly", "KernelEq", "TwinNear"]
w("TraceTwin-hard.cfg", run.trace_cfg(tw, hard=True))
w("TraceTwin-soft.cfg", run.trace_cfg(tw, hard=False))
print("\n".join(sorted(os.listdir(out))))
