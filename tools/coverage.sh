#!/bin/bash
# tools/coverage.sh [tier] [ids...]: line coverage of /repo/src reached by the checks' drivers
# (development aid: shows which parts of rubato no generated history reaches). Needs the nightly
# toolchain's llvm-tools. Output: .work/coverage/report.txt (+ per-file uncovered lines).
set -e
cd "$(dirname "$0")/.."
tier=${1:-quick}; shift || true
ids=${@:-C03 C04 C05 C06 C07 C08 C09 C10 C11 C12 C13 C14 C15 C16 C17 C18}
out=$PWD/.work/coverage; rm -rf "$out"; mkdir -p "$out"
bin=$(dirname $(rustc +nightly --print target-libdir))/bin
for p in $ids; do
  VERIF_COVERAGE=$out ./check $p --tier $tier 2>&1 | tail -1
done
$bin/llvm-profdata merge -sparse $out/*.profraw -o $out/all.profdata
$bin/llvm-cov report harness/target-cov/verif/driver -instr-profile=$out/all.profdata --sources $(readlink -f .repo-link)/src > $out/report.txt 2>&1 || true
$bin/llvm-cov show harness/target-cov/verif/driver -instr-profile=$out/all.profdata --sources $(readlink -f .repo-link)/src --show-line-counts-or-regions > $out/show.txt 2>&1 || true
cat $out/report.txt
