#!/usr/bin/env python3
"""tools/seedtest.py [id ...] [--tier quick] [--all-checks]

For every seeded change /verif/seeded/<id>/ (patch.diff, demo.rs, meta.json): apply the patch to
/repo, run the quick check of the property it breaks (plus, with --all-checks, every other
claimed check), undo the patch, and record which checks raised a VIOLATION.  Results are
appended to seeded/RESULTS.md.  /repo is always restored (git checkout -- .)."""
import json, os, subprocess, sys, time
V = os.path.dirname(os.path.dirname(os.path.abspath(__file__)))


def sh(cmd, cwd=None, timeout=3600):
    p = subprocess.run(cmd, cwd=cwd, shell=True, stdout=subprocess.PIPE, stderr=subprocess.STDOUT, text=True,
                       timeout=timeout)
    return p.returncode, p.stdout


def main():
    args = [a for a in sys.argv[1:] if not a.startswith("--")]
    tier = "quick"
    if "--tier" in sys.argv:
        tier = sys.argv[sys.argv.index("--tier") + 1]
        args = [a for a in args if a != tier]
    allchecks = "--all-checks" in sys.argv
    # --repo PATH: use a scratch checkout of /repo (git worktree) instead of /repo itself, e.g. while
    # background runs are using /repo; the checks are pointed at it through VERIF_REPO
    repo = "/repo"
    if "--repo" in sys.argv:
        repo = sys.argv[sys.argv.index("--repo") + 1]
        args = [a for a in args if a != repo]
        os.environ["VERIF_REPO"] = repo
    ids = args or sorted(d for d in os.listdir(os.path.join(V, "seeded")) if os.path.isdir(os.path.join(V, "seeded", d)))
    claimed = [c["property_id"] for c in json.load(open(os.path.join(V, "MANIFEST.json")))["checks"]]
    rows = []
    for sid in ids:
        d = os.path.join(V, "seeded", sid)
        meta = json.load(open(os.path.join(d, "meta.json")))
        prop = meta["property"]
        rc, out = sh("git -C %s status --porcelain" % repo)
        if out.strip():
            print("refusing: repo is not clean:\n" + out)
            return 2
        rc, out = sh("git -C %s apply %s" % (repo, os.path.join(d, "patch.diff")))
        if rc != 0:
            rows.append((sid, prop, "PATCH DOES NOT APPLY", ""))
            print(sid, "patch does not apply:", out)
            continue
        try:
            todo = [prop] + ([c for c in claimed if c != prop] if allchecks else meta.get("also", []))
            res = {}
            for c in todo:
                t = time.time()
                rc, out = sh("./check %s --tier %s" % (c, tier), cwd=V)
                nv = sum(1 for l in out.splitlines() if l.startswith("VIOLATION"))
                preds = sorted({l.split("predicate=")[1].split()[0] for l in out.splitlines()
                                if l.startswith("VIOLATION") and "predicate=" in l})
                drift = sum(1 for l in out.splitlines() if l.startswith("MODEL-DRIFT"))
                res[c] = (rc, nv, preds, drift, time.time() - t)
                print(sid, c, "rc", rc, "violations", nv, preds, "drift", drift, "%.0fs" % (time.time() - t))
                if rc == 2:
                    print(out[-1500:])
        finally:
            sh("git -C %s checkout -- ." % repo)
        caught = [c for c, r in res.items() if r[0] == 1]
        rows.append((sid, prop, "CAUGHT" if res[prop][0] == 1 else ("TOOL-ERROR" if res[prop][0] == 2 else "MISSED"),
                     "; ".join("%s: rc=%d viol=%d %s drift=%d" % (c, r[0], r[1], ",".join(r[2]), r[3]) for c, r in res.items())))
    with open(os.path.join(V, "seeded", "RESULTS.md"), "a") as f:
        f.write("\n### run %s tier=%s\n\n| seeded change | property | own check | details |\n|---|---|---|---|\n" % (
            time.strftime("%Y-%m-%d %H:%M"), tier))
        for r in rows:
            f.write("| %s | %s | %s | %s |\n" % r)
    for r in rows:
        print(r)
    return 0


if __name__ == "__main__":
    sys.exit(main())
